"""Core of the static checker: fact building/caching, fact indexes, tree helpers,
obligation/violation bookkeeping, evidence and known-findings handling.

Nothing here (or in any rule) executes code of the repository: facts come from the
compiler front end (tomlfacts, a rustc_private driver run under `cargo check`) and
from a syn-based source reader (srcfacts)."""
import fcntl
import hashlib
import json
import os
import subprocess
import sys
import time
import traceback

VERIF = os.path.dirname(os.path.dirname(os.path.abspath(__file__)))
CACHE = os.path.join(VERIF, '.cache')
LIB_CRATES = ['toml_edit', 'toml', 'toml_write', 'toml_datetime', 'serde_spanned']
DRIVER = os.path.join(VERIF, 'tools/tomlfacts/target/debug/tomlfacts')
SRCFACTS = os.path.join(VERIF, 'tools/srcfacts/target/debug/srcfacts')

ALL_P = ['-p', 'toml_edit', '-p', 'toml', '-p', 'toml_write', '-p', 'toml_datetime', '-p', 'serde_spanned']
# configuration label -> (cargo args, crates expected in the fact dir)
CONFIGS = {
    'default': (ALL_P + ['--features', 'toml_edit/serde'], LIB_CRATES),
    'perf': (ALL_P + ['--features', 'toml_edit/serde,toml_edit/perf'], LIB_CRATES),
    'preserve_order': (ALL_P + ['--features', 'toml_edit/serde,toml/preserve_order'], LIB_CRATES),
    'perf_preserve_order': (ALL_P + ['--features', 'toml_edit/serde,toml_edit/perf,toml/preserve_order'], LIB_CRATES),
    'unbounded': (ALL_P + ['--features', 'toml_edit/serde,toml_edit/unbounded'], LIB_CRATES),
    'edit_nodefault': (['-p', 'toml_edit', '--no-default-features'], ['toml_edit', 'toml_datetime', 'toml_write']),
    'edit_parse': (['-p', 'toml_edit', '--no-default-features', '--features', 'parse'], ['toml_edit', 'toml_datetime']),
    'edit_display': (['-p', 'toml_edit', '--no-default-features', '--features', 'display'], ['toml_edit', 'toml_datetime', 'toml_write']),
    'edit_parse_serde': (['-p', 'toml_edit', '--no-default-features', '--features', 'parse,serde'], ['toml_edit', 'toml_datetime', 'serde_spanned']),
    'edit_display_serde': (['-p', 'toml_edit', '--no-default-features', '--features', 'display,serde'], ['toml_edit', 'toml_datetime', 'serde_spanned', 'toml_write']),
    'toml_nodefault': (['-p', 'toml', '--no-default-features'], ['toml', 'toml_datetime', 'serde_spanned']),
    'toml_parse': (['-p', 'toml', '--no-default-features', '--features', 'parse'], ['toml', 'toml_edit', 'toml_datetime', 'serde_spanned']),
    'toml_display': (['-p', 'toml', '--no-default-features', '--features', 'display'], ['toml', 'toml_edit', 'toml_datetime', 'serde_spanned', 'toml_write']),
    'toml_parse_po': (['-p', 'toml', '--no-default-features', '--features', 'parse,preserve_order'], ['toml', 'toml_edit', 'toml_datetime', 'serde_spanned']),
    'toml_display_po': (['-p', 'toml', '--no-default-features', '--features', 'display,preserve_order'], ['toml', 'toml_edit', 'toml_datetime', 'serde_spanned', 'toml_write']),
    'write_nodefault': (['-p', 'toml_write', '--no-default-features'], ['toml_write']),
    'write_alloc': (['-p', 'toml_write', '--no-default-features', '--features', 'alloc'], ['toml_write']),
    'datetime_nodefault': (['-p', 'toml_datetime', '--no-default-features'], ['toml_datetime']),
    'datetime_serde': (['-p', 'toml_datetime', '--features', 'serde'], ['toml_datetime']),
    'spanned_nodefault': (['-p', 'serde_spanned', '--no-default-features'], ['serde_spanned']),
    'spanned_serde': (['-p', 'serde_spanned', '--features', 'serde'], ['serde_spanned']),
}
THOROUGH_RULE_CONFIGS = ['default', 'perf', 'preserve_order', 'perf_preserve_order', 'unbounded']


class AnalysisIncomplete(Exception):
    """The analysis could not look (missing anchor, unanalysable construct, build
    failure).  Never reported as 'held'."""


def repo_root():
    return os.environ.get('VERIF_REPO', '/repo')


def evidence_dir():
    # the self-test analyses scratch copies (VERIF_REPO); its reports must not overwrite the evidence of /repo
    if os.environ.get('VERIF_REPO') and os.environ.get('VERIF_EVIDENCE_DIR'):
        return os.environ['VERIF_EVIDENCE_DIR']
    return os.path.join(VERIF, 'evidence')


def source_files(repo):
    out = []
    for base in ['crates']:
        for dp, dn, fn in os.walk(os.path.join(repo, base)):
            dn[:] = [d for d in dn if d not in ('target', '.git')]
            for f in fn:
                if f.endswith('.rs') or f in ('Cargo.toml',):
                    out.append(os.path.join(dp, f))
    for f in ('Cargo.toml', 'Cargo.lock'):
        p = os.path.join(repo, f)
        if os.path.exists(p):
            out.append(p)
    return sorted(out)


_HASH = {}


def tree_hash(repo):
    if repo in _HASH:
        return _HASH[repo]
    h = hashlib.sha256()
    for p in source_files(repo):
        h.update(os.path.relpath(p, repo).encode())
        h.update(b'\0')
        with open(p, 'rb') as f:
            h.update(f.read())
        h.update(b'\0')
    # the tools themselves are part of the key
    for tool in (DRIVER, SRCFACTS):
        try:
            st = os.stat(tool)
            h.update(f'{tool}:{st.st_size}:{int(st.st_mtime)}'.encode())
        except OSError:
            pass
    _HASH[repo] = h.hexdigest()[:24]
    return _HASH[repo]


def ensure_tools():
    env = dict(os.environ, CARGO_NET_OFFLINE='true')
    if not os.path.exists(DRIVER):
        subprocess.run(['cargo', 'build', '--offline'], cwd=os.path.join(VERIF, 'tools/tomlfacts'), env=env, check=True,
                       stdout=subprocess.DEVNULL, stderr=subprocess.DEVNULL)
    if not os.path.exists(SRCFACTS):
        subprocess.run(['cargo', 'build', '--offline'], cwd=os.path.join(VERIF, 'tools/srcfacts'), env=env, check=True,
                       stdout=subprocess.DEVNULL, stderr=subprocess.DEVNULL)


def _prune_cache(keep):
    """drop fact caches of trees that were not used for an hour (never one that may be in use by a parallel run)"""
    try:
        ents = [e for e in os.listdir(CACHE) if e != keep and not e.endswith('.lock') and e != 'target-shared']
    except OSError:
        return
    now = time.time()
    old = []
    for e in ents:
        try:
            age = now - os.path.getmtime(os.path.join(CACHE, e))
        except OSError:
            continue
        if age > 3600:
            old.append((age, e))
    old.sort(reverse=True)
    for age, e in old:
        subprocess.run(['rm', '-rf', os.path.join(CACHE, e)])
        try:
            for f in os.listdir(CACHE):
                if f.startswith(e + '.') and f.endswith('.lock'):
                    os.remove(os.path.join(CACHE, f))
        except OSError:
            pass


def facts_dir(config, repo=None):
    """Build (or reuse) the fact files of one configuration for the current tree."""
    repo = repo or repo_root()
    ensure_tools()
    th = tree_hash(repo)
    d = os.path.join(CACHE, th, config)
    os.makedirs(os.path.join(CACHE, th), exist_ok=True)
    try:
        os.utime(os.path.join(CACHE, th), None)
    except OSError:
        pass
    lock = open(os.path.join(CACHE, th + '.' + config + '.lock'), 'w')
    fcntl.flock(lock, fcntl.LOCK_EX)
    try:
        args, crates = CONFIGS[config]
        ok_marker = os.path.join(d, 'OK')
        if not os.path.exists(ok_marker):
            subprocess.run(['rm', '-rf', d])
            os.makedirs(d)
            t0 = time.time()
            p = subprocess.run([os.path.join(VERIF, 'tools/runfacts.sh'), repo, d, config] + args,
                               stdout=subprocess.PIPE, stderr=subprocess.STDOUT, text=True)
            with open(os.path.join(d, 'build.log'), 'w') as f:
                f.write(p.stdout)
            if p.returncode != 0:
                tail = '\n'.join(p.stdout.splitlines()[-25:])
                raise AnalysisIncomplete(f'configuration `{config}` does not type-check under the driver '
                                         f'(cargo +nightly check {" ".join(args)}):\n{tail}')
            for c in [a for i, a in enumerate(args) if i > 0 and args[i - 1] == '-p']:
                if not os.path.exists(os.path.join(d, c + '.json')):
                    raise AnalysisIncomplete(f'fact file {c}.json missing for configuration `{config}`')
            with open(ok_marker, 'w') as f:
                f.write(json.dumps({'tree': th, 'config': config, 'build_s': round(time.time() - t0, 2)}))
            _prune_cache(th)
        return d
    finally:
        fcntl.flock(lock, fcntl.LOCK_UN)
        lock.close()


def src_facts(repo=None):
    repo = repo or repo_root()
    ensure_tools()
    th = tree_hash(repo)
    os.makedirs(os.path.join(CACHE, th), exist_ok=True)
    out = os.path.join(CACHE, th, 'src.json')
    if not os.path.exists(out):
        files = []
        for c in LIB_CRATES:
            for dp, dn, fn in os.walk(os.path.join(repo, 'crates', c, 'src')):
                for f in sorted(fn):
                    if f.endswith('.rs'):
                        files.append(os.path.relpath(os.path.join(dp, f), repo))
        files.sort()
        tmp = out + f'.tmp{os.getpid()}'
        p = subprocess.run([SRCFACTS, tmp] + files, cwd=repo, stdout=subprocess.PIPE, stderr=subprocess.STDOUT, text=True)
        if p.returncode != 0:
            raise AnalysisIncomplete('srcfacts failed: ' + p.stdout[-2000:])
        os.rename(tmp, out)
    with open(out) as f:
        return json.load(f)


def item_scope(src, c):
    """scope of a srcfacts record without its leading (inline) module segments: where in the crate an item lives is not behaviour"""
    mods = getattr(item_scope, '_mods', None)
    if mods is None or mods[0] is not src:
        m = set()
        for it in src.get('items', []):
            if it.get('kind') == 'mod':
                m.add((it['file'], (it['scope'] + '::' if it['scope'] else '') + it['name']))
        mods = item_scope._mods = (src, m)
    segs = c['scope'].split('::') if c['scope'] else []
    i = 0
    while i < len(segs) and (c['file'], '::'.join(segs[:i + 1])) in mods[1]:
        i += 1
    return '::'.join(segs[i:])


# ----------------------------------------------------------------------------
# tree helpers

CHILD_KEYS = ('body', 'expr', 'stmts', 'init', 'else', 'e', 'f', 'args', 'recv', 'a', 'b', 'cond', 'then', 'scrut', 'arms',
              'guard', 'lhs', 'rhs', 'base', 'idx', 'v', 'elems', 'fields', 'pat', 'params')


def children(n):
    """Direct child nodes (dicts) of a HIR node, in source order."""
    for k, v in n.items():
        if isinstance(v, dict):
            yield v
        elif isinstance(v, list):
            for x in v:
                if isinstance(x, dict):
                    yield x


def walk(n):
    """Pre-order walk over all dict nodes below n (including n)."""
    stack = [n]
    while stack:
        x = stack.pop()
        if isinstance(x, dict):
            yield x
            ch = list(children(x))
            stack.extend(reversed(ch))
        elif isinstance(x, list):
            stack.extend(reversed(x))


def callee(n):
    """Best-known callee path of a call-like node (resolved impl method if known)."""
    k = n.get('k')
    if k == 'mcall':
        return n.get('resolved') or n.get('callee') or ('?::' + n.get('name', ''))
    if k == 'call':
        f = n.get('f', {})
        if f.get('k') == 'path':
            return f.get('resolved') or f.get('path')
        return None
    if k in ('binary', 'unary', 'index', 'assignop') and n.get('callee'):
        return n['callee']
    return None


def callee_all(n):
    """All names a call-like node may be known under (trait method + resolved impl)."""
    k = n.get('k')
    out = []
    if k == 'mcall':
        out = [n.get('resolved'), n.get('callee')]
    elif k == 'call':
        f = n.get('f', {})
        if f.get('k') == 'path':
            out = [f.get('resolved'), f.get('path')]
    elif n.get('callee'):
        out = [n['callee']]
    return [x for x in out if x]


def last_seg(path):
    if not path:
        return ''
    # strip generic args
    depth = 0
    out = []
    for ch in path:
        if ch == '<':
            depth += 1
        elif ch == '>':
            depth -= 1
        elif depth == 0:
            out.append(ch)
    s = ''.join(out)
    return s.rsplit('::', 1)[-1]


def strip_generics(path):
    depth = 0
    out = []
    for ch in path or '':
        if ch == '<':
            depth += 1
            continue
        if ch == '>':
            depth -= 1
            continue
        if depth == 0:
            out.append(ch)
    return ''.join(out).replace('::::', '::')


def calls_in(n):
    """All call-like nodes (call, mcall) below n."""
    for x in walk(n):
        if x.get('k') in ('call', 'mcall'):
            yield x


def peel(n):
    """Strip blocks without statements, addr-of, casts-free wrappers."""
    while isinstance(n, dict):
        if n.get('k') == 'block' and not n.get('stmts') and 'expr' in n:
            n = n['expr']
        elif n.get('k') == 'addrof':
            n = n['a']
        elif n.get('k') == 'unary' and n.get('op') == '*':
            n = n['a']
        else:
            break
    return n


class Facts:
    def __init__(self, config='default', repo=None):
        self.config = config
        self.repo = repo or repo_root()
        self.dir = facts_dir(config, self.repo)
        self.renames = []
        import re

        def tr_for(ren):
            # analyse the tree under the names the rules know: every occurrence of a renamed or moved item's path is rewritten
            pats = [(re.compile(r'(?<![A-Za-z0-9_:])' + re.escape(new) + r'(?![A-Za-z0-9_])'), old) for old, new in ren]

            def tr(text):
                for pat, old in pats:
                    text = pat.sub(old.replace('\\', '\\\\'), text)
                return text
            return tr
        self._load(None)
        moved = self._detect_moved_types()
        if moved:
            self._load(tr_for(moved))
        ren = self._detect_renames()
        if ren:
            self._load(tr_for(moved + ren))
        self.renames = moved + ren
        self._finish()

    def _load(self, transform):
        self.crates = {}
        for c in LIB_CRATES:
            fp = os.path.join(self.dir, c + '.json')
            if os.path.exists(fp):
                with open(fp) as f:
                    text = f.read()
                if transform:
                    text = transform(text)
                self.crates[c] = json.loads(text)
        self.bodies = {}
        self.mir = {}
        self.fns = {}
        self.adts = {}
        self.impls = []
        self.traits = {}
        self.aliases = {}
        self.consts = {}
        for c, d in self.crates.items():
            for b in d['bodies']:
                self.bodies[b['def']] = b
            for m in d['mir']:
                self.mir[m['def']] = m
            for f in d['fns']:
                self.fns[f['def']] = f
            for a in d['adts']:
                self.adts[a['path']] = a
            for i in d['impls']:
                i['crate'] = c
                self.impls.append(i)
            for t in d['traits']:
                self.traits[t['path']] = t
            for a in d['aliases']:
                self.aliases[a['path']] = a
            for k in d['consts']:
                self.consts[k['def']] = k
        self.hidden_fns = {}
        self.inlined = {}
        self.delegates = {}

    def _finish(self):
        self._expand_helpers()
        self._canonical_locals()

    def _anchor_base(self):
        global _ANCHOR_BASE
        try:
            return _ANCHOR_BASE
        except NameError:
            fp = os.path.join(VERIF, 'allow', 'anchors.json')
            try:
                _ANCHOR_BASE = json.load(open(fp))['fns']
            except (OSError, ValueError, KeyError):
                _ANCHOR_BASE = None
            return _ANCHOR_BASE

    def _expand_helpers(self):
        """new private helper functions are expanded at their uses (verif/normalise.py)"""
        base = self._anchor_base()
        if not base:
            return
        from .normalise import Normaliser
        n = Normaliser(self, base)
        n.run()
        self.inlined = {h: sorted(o) for h, o in n.expanded.items()}
        self.delegates = dict(n.delegates)

    def _canonical_locals(self):
        """renamed local variables are read under the names the rules know (allow/locals.json): only when the function binds the same
        number of locals with the same types in the same order"""
        fp = os.path.join(VERIF, 'allow', 'locals.json')
        if not os.path.exists(fp):
            return
        global _LOCALS_BASE
        try:
            base = _LOCALS_BASE
        except NameError:
            try:
                base = _LOCALS_BASE = json.load(open(fp))['locals']
            except (ValueError, KeyError):
                return
        self.local_renames = getattr(self, 'local_renames', [])
        for d, b in self.bodies.items():
            want = base.get(d)
            if not want:
                continue
            binds = []
            for root in list(b.get('params', [])) + [b['body']]:
                for n in walk(root):
                    if n.get('k') == 'p_bind':
                        binds.append(n)
            if len(binds) != len(want):
                continue
            if all(n['name'].split('#')[0] == w[0] for n, w in zip(binds, want)):
                continue
            if any((n.get('t') or '') != w[1] for n, w in zip(binds, want)):
                continue
            mapping = {}
            for n, w in zip(binds, want):
                mapping[n['name']] = w[0] + '#' + n['name'].split('#', 1)[1] if '#' in n['name'] else w[0]
            changed = sorted({k.split('#')[0] + '->' + v.split('#')[0] for k, v in mapping.items() if k.split('#')[0] != v.split('#')[0]})
            for root in list(b.get('params', [])) + [b['body']]:
                for n in walk(root):
                    if n.get('k') == 'p_bind' and n['name'] in mapping:
                        n['name'] = mapping[n['name']]
                    elif n.get('k') == 'path' and n.get('res') == 'Local' and n.get('path') in mapping:
                        n['path'] = mapping[n['path']]
            self.local_renames.append((d, changed))

    def _detect_moved_types(self):
        """[(old path, new path)]: a type or trait that moved to another module of its crate (same name, same members) keeps its
        rules; so do the functions defined on it, whose paths carry the type's path as a prefix"""
        global _ANCHOR_ALL
        try:
            allb = _ANCHOR_ALL
        except NameError:
            try:
                allb = _ANCHOR_ALL = json.load(open(os.path.join(VERIF, 'allow', 'anchors.json')))
            except (OSError, ValueError):
                allb = _ANCHOR_ALL = {}
        if self._anchor_base() is None:
            return []
        out = []
        shape = lambda a: [[v['name'], [x['name'] for x in v.get('fields', [])]] for v in a.get('variants', [])]
        for table, cur, key in ((allb.get('adts') or {}, self.adts, lambda a: shape(a)),
                                (allb.get('traits') or {}, self.traits, lambda t: sorted(i['name'] for i in t.get('items', [])))):
            unknown = [p for p in cur if p not in table]
            for old, want in sorted(table.items()):
                if old in cur or old.split('::')[0] not in self.crates:
                    continue
                want = want.get('members') if isinstance(want, dict) else want
                name, crate = old.rsplit('::', 1)[1], old.split('::')[0]
                cands = [p for p in unknown if p.rsplit('::', 1)[1] == name and p.split('::')[0] == crate]
                if len(cands) > 1:
                    cands = [p for p in cands if key(cur[p]) == want]
                if len(cands) == 1:
                    out.append((old, cands[0]))
        # constants and statics: same name, elsewhere in the crate
        for old in sorted(allb.get('consts') or []):
            if old in self.consts or old.split('::')[0] not in self.crates or '{' in old:
                continue
            name, crate = old.rsplit('::', 1)[1], old.split('::')[0]
            cands = [p for p in self.consts if p not in allb['consts'] and p.rsplit('::', 1)[1] == name and p.split('::')[0] == crate]
            if len(cands) == 1 and not any(old.startswith(o + '::') for o, _ in out):
                out.append((old, cands[0]))
        return out

    def _detect_renames(self):
        """[(old def path, new def path)]: a private function that was renamed or moved keeps its rules (allow/anchors.json)"""
        base = self._anchor_base()
        if not base:
            return []
        sig = lambda v: (tuple(v.get('inputs') or []), v.get('output'), tuple(v.get('generics') or []))
        unknown = {d: v for d, v in self.fns.items() if d not in base and '::test' not in d}
        if not unknown:
            return []
        by_sig = {}
        for d, v in unknown.items():
            by_sig.setdefault(sig(v), []).append(d)
        out = []
        taken = set()
        for old, v in sorted(base.items()):
            if old in self.fns or old.split('::')[0].lstrip('<') not in self.crates:
                continue
            cands = [c for c in by_sig.get(sig(v), []) if c not in taken]
            mod, name = old.rsplit('::', 1)
            crate = old.split('::')[0]
            same_mod = [c for c in cands if c.rsplit('::', 1)[0] == mod]
            same_name = [c for c in cands if c.rsplit('::', 1)[1] == name and c.split('::')[0] == crate]
            pick = same_mod if len(same_mod) == 1 else same_name if len(same_name) == 1 else []
            if len(pick) != 1:
                continue
            # the old module must still be compiled (otherwise the function is gated out, not renamed)
            if not same_name and not any(d.rsplit('::', 1)[0] == mod for d in self.fns if d in base):
                continue
            out.append((old, pick[0]))
            taken.add(pick[0])
        # an impl block that moved to another module than its type is printed by rustc as `module::<impl Trait for Type>::m` instead of
        # `<Type as Trait>::m` (and an inherent one as `module::<impl Type>::m` instead of `Type::m`): the same item, followed by its canonical form
        def canon(d):
            """(impl prefix as written, canonical key) of a def path, or None when it is not inside an impl"""
            i = d.find('::<impl ')
            if i >= 0:
                depth, j = 0, i + 2
                while j < len(d):
                    if d[j] == '<':
                        depth += 1
                    elif d[j] == '>' and d[j - 1] != '-':
                        depth -= 1
                        if depth == 0:
                            break
                    j += 1
                inner = d[i + 8:j]
                k, dep = -1, 0
                for x in range(len(inner)):
                    if inner[x] == '<':
                        dep += 1
                    elif inner[x] == '>':
                        dep -= 1
                    elif dep == 0 and inner.startswith(' for ', x):
                        k = x
                        break
                start = i
                while start > 0 and (d[start - 1].isalnum() or d[start - 1] in '_:'):
                    start -= 1
                key = ('trait', inner[k + 5:], inner[:k]) if k >= 0 else ('inherent', inner, None)
                return d[start:j + 1], key, d[j + 1:]
            if d.startswith('<') and ' as ' in d:
                depth = 0
                for j, ch in enumerate(d):
                    if ch == '<':
                        depth += 1
                    elif ch == '>' and d[j - 1] != '-':
                        depth -= 1
                        if depth == 0:
                            inner = d[1:j]
                            dep = 0
                            for x in range(len(inner)):
                                if inner[x] == '<':
                                    dep += 1
                                elif inner[x] == '>':
                                    dep -= 1
                                elif dep == 0 and inner.startswith(' as ', x):
                                    return d[:j + 1], ('trait', inner[:x], inner[x + 4:]), d[j + 1:]
                            return None
            return None
        cur_impl = {}
        for c in unknown:
            cc_ = canon(c)
            if cc_ and not c.startswith('<<'):
                cur_impl.setdefault((cc_[1], cc_[2]), []).append((c, cc_[0]))
        seen_prefix = set()
        for old in sorted(base):
            if old in self.fns or old.startswith('<<') or old.split('::')[0].lstrip('<') not in self.crates:
                continue
            co = canon(old)
            if not co:
                continue
            hit = cur_impl.get((co[1], co[2])) or []
            if len(hit) == 1 and hit[0][1] != co[0] and (co[0], hit[0][1]) not in seen_prefix:
                seen_prefix.add((co[0], hit[0][1]))
                out.append((co[0], hit[0][1]))
                taken.add(hit[0][0])
        # a private function that was renamed (or moved) AND given another signature is recognised by what it calls: the missing anchor and the one
        # newcomer of its crate whose callee set is clearly the most similar (Jaccard >= 0.6, runner-up at least 0.15 behind, both with >= 4 callees)
        def fp(d):
            b = self.bodies.get(d)
            s_ = set()
            if b is not None:
                for n in walk(b['body']):
                    if n.get('k') in ('call', 'mcall'):
                        for c in callee_all(n)[:1]:
                            s_.add(last_seg(c.split('::<')[0]))
                        if n.get('k') == 'mcall' and n.get('name'):
                            s_.add(n['name'])
            return s_
        done_old = {o for o, _ in out}
        for old, v in sorted(base.items()):
            if old in self.fns or old in done_old or old.split('::')[0].lstrip('<') not in self.crates or v.get('vis') == 'pub' or old.startswith('<'):
                continue
            want = set(v.get('calls') or [])
            if len(want) < 4:
                continue
            crate = old.split('::')[0]
            scored = []
            for c, cv in unknown.items():
                if c in taken or c.split('::')[0] != crate or c.startswith('<') or cv.get('vis') == 'pub':
                    continue
                got = fp(c)
                if len(got) < 4:
                    continue
                scored.append((len(want & got) / len(want | got), c))
            scored.sort(reverse=True)
            if scored and scored[0][0] >= 0.6 and (len(scored) == 1 or scored[0][0] - scored[1][0] >= 0.15):
                out.append((old, scored[0][1]))
                taken.add(scored[0][1])
        return out

    def n_bodies(self):
        return len(self.bodies)

    def body(self, name):
        b = self.bodies.get(name)
        if b is None:
            raise AnalysisIncomplete(f'anchor `{name}` not found in the typed HIR of configuration `{self.config}`')
        return b

    def has_body(self, name):
        return name in self.bodies

    def bodies_with_prefix(self, prefix):
        return [b for d, b in self.bodies.items() if d.startswith(prefix)]

    def impls_of(self, trait_path):
        return [i for i in self.impls if i.get('trait') == trait_path]

    def impl_method(self, impl, name):
        for it in impl['items']:
            if it['name'] == name:
                return it['def']
        return None

    def method(self, trait, self_ty, name):
        """def path of method `name` in the impl of `trait` (exact path, or None for inherent) for `self_ty`"""
        for i in self.impls:
            if i.get('trait') == trait and (i.get('self_ty') == self_ty or i.get('self_adt') == self_ty):
                for it in i['items']:
                    if it['name'] == name:
                        return it['def']
        raise AnalysisIncomplete(f'anchor: impl {trait} for {self_ty} :: {name} not found in configuration `{self.config}`')

    def has_method(self, trait, self_ty, name):
        try:
            self.method(trait, self_ty, name)
            return True
        except AnalysisIncomplete:
            return False

    def rel(self, path):
        """file path relative to the repo root"""
        if path and path.startswith(self.repo):
            return os.path.relpath(path, self.repo)
        return path

    def loc(self, body, node=None):
        line = (node or {}).get('l') or body.get('line')
        return f"{self.rel(body.get('file'))}:{line}"


# ----------------------------------------------------------------------------
# reporting

class Report:
    def __init__(self, prop, tier, seed=0):
        self.prop = prop
        self.tier = tier
        self.seed = seed
        self.t0 = time.time()
        self.rules = {}          # rule id -> {'text':..., 'obligations':[...]}
        self.violations = []     # dicts
        self.notes = []
        self.assumptions = []
        self.trusted = []
        self.configs = []
        self.bodies_analysed = 0
        self.not_implemented = []

    def rule(self, rid, text, floor=None):
        r = self.rules.setdefault(rid, {'text': text, 'obligations': [], 'floor': floor, 'info': []})
        if floor is not None:
            r['floor'] = floor
        return rid

    def ok(self, rid, key, detail='', loc=''):
        self.rules[rid]['obligations'].append({'key': key, 'ok': True, 'detail': detail, 'loc': loc})

    def bad(self, rid, key, detail, loc='', kind='violation'):
        full = f'{rid}|{key}'
        self.rules[rid]['obligations'].append({'key': key, 'ok': False, 'detail': detail, 'loc': loc})
        # the same violation seen in several configurations is reported once
        for v in self.violations:
            if v['key'] == full:
                if self.cur_config and self.cur_config not in v['configs']:
                    v['configs'].append(self.cur_config)
                return
        self.violations.append({'rule': rid, 'key': full, 'detail': detail, 'loc': loc, 'kind': kind,
                                'configs': [self.cur_config] if self.cur_config else []})

    cur_config = None

    def check(self, rid, key, cond, detail_ok='', detail_bad='', loc=''):
        if cond:
            self.ok(rid, key, detail_ok, loc)
        else:
            self.bad(rid, key, detail_bad or detail_ok, loc)
        return cond

    def info(self, rid, text):
        self.rules[rid]['info'].append(text)

    def incomplete(self, rid, key, detail, loc=''):
        if rid not in self.rules:
            self.rule(rid, '(analysis)')
        self.bad(rid, key, detail, loc, kind='analysis-incomplete')

    def relabel(self, old, new, text_prefix=''):
        """move the obligations of a shared rule evaluated under another property's id to this property's id"""
        if old not in self.rules:
            return
        r = self.rules.pop(old)
        if text_prefix:
            r['text'] = text_prefix + r['text']
        if new in self.rules:
            self.rules[new]['obligations'] += r['obligations']
        else:
            self.rules[new] = r
        for v in self.violations:
            if v['rule'] == old:
                v['rule'] = new
                v['key'] = v['key'].replace(old + '|', new + '|', 1)

    def finish(self):
        """Apply floors, known findings; print; write evidence; return exit code."""
        for rid, r in self.rules.items():
            if r.get('floor') is not None:
                n = len(set(o['key'] for o in r['obligations']))
                if n < r['floor']:
                    self.bad(rid, '__floor__', f'rule matched {n} instances, fewer than the {r["floor"]} confirmed by '
                                                 f'reading the code: an anchor moved or the rule no longer sees its sites',
                             kind='analysis-incomplete')
        known = load_known()
        kf_lines = []
        real = []
        for v in self.violations:
            ent = known.get((self.prop, v['key']))
            if ent and ent.get('state') == 'known':
                kf_lines.append(f"KNOWN-FINDING: property={self.prop} {v['key']} -- {ent.get('what', v['detail'])}")
                v['known'] = True
            else:
                real.append(v)
        os.makedirs(os.path.join(evidence_dir(), 'violations'), exist_ok=True)
        # remove stale violation reports of this property
        vdir = os.path.join(evidence_dir(), 'violations')
        for f in os.listdir(vdir):
            if f.startswith(self.prop + '-'):
                os.remove(os.path.join(vdir, f))
        for line in kf_lines:
            print(line)
        for v in real:
            safe = ''.join(c if c.isalnum() or c in '-_.' else '_' for c in v['key'])[:150]
            path = os.path.join(vdir, f'{self.prop}-{safe}.json')
            with open(path, 'w') as f:
                json.dump({'property': self.prop, 'rule': v['rule'], 'rule_text': self.rules.get(v['rule'], {}).get('text', ''),
                           'key': v['key'], 'kind': v['kind'], 'where': v['loc'], 'detail': v['detail'],
                           'configs': v['configs'],
                           'replay': f'./check {self.prop} --tier {self.tier}  (re-evaluates the rule on the current tree)'},
                          f, indent=1)
            print(f"VIOLATION property={self.prop} replay={path}")
            print(f"  [{v['kind']}] {v['rule']} {v['loc']}: {v['detail']}")
        self.write_evidence(len(real), kf_lines)
        return 1 if real else 0

    def write_evidence(self, n_viol, kf_lines):
        obligations = sum(len(r['obligations']) for r in self.rules.values())
        discharged = sum(1 for r in self.rules.values() for o in r['obligations'] if o['ok'])
        distinct = len(set((rid, o['key']) for rid, r in self.rules.items() for o in r['obligations']))
        samples = []
        rules_out = []
        for rid, r in self.rules.items():
            obs = r['obligations']
            rules_out.append({'rule': rid, 'text': r['text'], 'instances': len(obs),
                              'holding': sum(1 for o in obs if o['ok']), 'floor': r.get('floor'),
                              'info': r['info'][:40],
                              'instances_list': [{'key': o['key'], 'ok': o['ok'], 'where': o['loc'], 'detail': o['detail'][:300]}
                                                 for o in obs[:400]]})
            for o in obs[:2]:
                samples.append({'rule': rid, 'instance': o['key'], 'where': o['loc'], 'holds': o['ok'], 'detail': o['detail'][:300]})
        ev = {
            'property_id': self.prop,
            'tier': self.tier,
            'seed': self.seed,
            'level': 'other',
            'coverage': {
                'explanation': ('Static analysis (no code of the repository is executed): rules over the typed HIR / MIR '
                                'facts extracted by a rustc_private driver under `cargo +nightly check`, and over the '
                                'unexpanded source (syn). Each obligation is one rule instance (function, call site, table '
                                'row, field, configuration); `discharged` counts those that hold. ' + ' '.join(self.notes)),
                'obligations': obligations,
                'discharged': discharged,
                'evaluations': max(obligations, 1),
                'distinct_nontrivial': max(distinct, 0),
                'rule': 'one obligation per (rule, instance key); distinct = distinct keys; every instance is non-trivial '
                        '(it names a concrete construct of the current source tree)',
                'samples': samples[:40] or [{'note': 'no instance'}],
                'checker_cmd': f'./check {self.prop} --tier {self.tier}',
                'trusted_base': self.trusted or ['rustc name resolution, type checker and MIR construction',
                                                 'the fact extractor /verif/tools/tomlfacts', 'the rule library /verif/verif'],
                'configurations': self.configs,
                'bodies_analysed': self.bodies_analysed,
                'rules': rules_out,
                'rules_not_implemented': self.not_implemented,
                'known_findings_printed': kf_lines,
            },
            'assumptions': self.assumptions,
            'wall_s': round(time.time() - self.t0, 3),
            'violations': n_viol,
        }
        os.makedirs(evidence_dir(), exist_ok=True)
        path = os.path.join(evidence_dir(), f'{self.prop}.json')
        tmp = path + f'.tmp{os.getpid()}'
        with open(tmp, 'w') as f:
            json.dump(ev, f, indent=1)
        os.rename(tmp, path)


def load_known():
    p = os.path.join(VERIF, 'known_findings.json')
    out = {}
    if os.path.exists(p):
        with open(p) as f:
            for e in json.load(f).get('findings', []):
                out[(e['property'], e['key'])] = e
    return out


def run_property(prop, tier, rule_fn, configs_quick=('default',), configs_thorough=None, extra=None):
    """Generic driver: evaluate rule_fn(report, facts) per configuration."""
    seed = int(os.environ.get('VERIF_SEED', '0') or 0)
    rep = Report(prop, tier, seed)
    configs = list(configs_quick if tier == 'quick' else (configs_thorough or THOROUGH_RULE_CONFIGS))
    for cfg in configs:
        rep.cur_config = cfg
        try:
            facts = Facts(cfg)
            for old, new in facts.renames:
                note = f'anchor `{old}` is gone; the only new function with its signature, `{new}`, is analysed in its place (allow/anchors.json).'
                if note not in rep.notes:
                    rep.notes.append(note)
            for h, owners in sorted(getattr(facts, 'inlined', {}).items()):
                note = f'new private function `{h}` expanded at its uses in {", ".join("`" + o + "`" for o in owners[:4])} (verif/normalise.py).'
                if note not in rep.notes:
                    rep.notes.append(note)
            for d, changed in getattr(facts, 'local_renames', []):
                note = f'locals of `{d}` renamed ({", ".join(changed[:6])}); read under the old names (allow/locals.json).'
                if note not in rep.notes:
                    rep.notes.append(note)
            rep.configs.append(cfg)
            rep.bodies_analysed += facts.n_bodies()
            rule_fn(rep, facts)
        except AnalysisIncomplete as e:
            rep.incomplete(f'{prop}/analysis', f'{cfg}', str(e))
        except Exception as e:  # a crashed rule never counts as "held"
            rep.incomplete(f'{prop}/analysis', f'{cfg}:crash', 'rule crashed: ' + traceback.format_exc()[-1500:])
    rep.cur_config = None
    if extra:
        try:
            extra(rep)
        except AnalysisIncomplete as e:
            rep.incomplete(f'{prop}/analysis', 'extra', str(e))
        except Exception:
            rep.incomplete(f'{prop}/analysis', 'extra:crash', 'rule crashed: ' + traceback.format_exc()[-1500:])
    return rep.finish()
