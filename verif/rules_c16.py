"""C16 — tables, arrays and maps obey ordered-container laws (decided part: no
order-breaking operation, uniform placeholder filtering, key identity, 1:1 delegate)."""
from .core import run_property, AnalysisIncomplete, walk, peel, last_seg, calls_in, callee_all, strip_generics
from .shared import order_ops

PROP = 'C16'

OBSERVERS = ('iter', 'iter_mut', 'get', 'get_mut', 'get_key_value', 'get_key_value_mut', 'contains_key', 'len', 'is_empty', 'into_iter', 'index')
FILTER_CALLS = {'is_none', 'is_value', 'as_value', 'as_value_mut', 'into_value', 'is_some_and'}


def observer_bodies(facts):
    """{label: def} of the observers of Table / InlineTable (inherent, TableLike impls, IntoIterator, Index)"""
    out = {}
    for ty, short in (('toml_edit::table::Table', 'Table'), ('toml_edit::inline_table::InlineTable', 'InlineTable')):
        for name in OBSERVERS:
            d = f'{ty}::{name}'
            if facts.has_body(d):
                out[f'{short}::{name}'] = d
        for imp in facts.impls:
            if imp.get('self_adt') != ty and imp.get('self_ty') not in (ty, '&' + ty, "&'s " + ty):
                continue
            tr = imp.get('trait') or ''
            if tr == 'toml_edit::table::TableLike':
                for it in imp['items']:
                    if it['name'] in OBSERVERS:
                        out[f'TableLike for {short}::{it["name"]}'] = it['def']
            elif tr == 'core::iter::traits::collect::IntoIterator':
                for it in imp['items']:
                    if it['name'] == 'into_iter':
                        own = 'owned' if imp.get('self_ty') == ty else 'ref'
                        out[f'IntoIterator for {own} {short}::into_iter'] = it['def']
            elif tr == 'core::ops::index::Index':
                for it in imp['items']:
                    if it['name'] == 'index':
                        out[f'Index for {short}::index'] = it['def']
    # default methods of the TableLike trait
    for name in ('len', 'is_empty'):
        d = f'toml_edit::table::TableLike::{name}'
        if facts.has_body(d):
            out[f'TableLike(default)::{name}'] = d
    return out


def r2_placeholders(rep, facts, rid='C16/R2', rid3='C16/R3'):
    R = rep.rule(rid, 'every observer of Table / InlineTable (inherent, TableLike, IntoIterator, Index) hides Item::None placeholders: it '
                 'tests the item itself (is_none / is_value / as_value ...) or delegates to an observer that does', floor=38)
    obs = observer_bodies(facts)
    by_def = {d: l for l, d in obs.items()}
    direct = {}
    deleg = {}
    for label, d in obs.items():
        b = facts.body(d)
        direct[d] = any(n.get('k') == 'mcall' and n.get('name') in FILTER_CALLS for n in walk(b['body'])) or \
            any(n.get('k') == 'path' and n.get('res') in ('Fn', 'AssocFn') and last_seg(n.get('path')) in ('as_value', 'as_table', 'is_value') for n in walk(b['body']))
        # matching on the Item discriminant with a None arm
        if any((x.get('path') or '').endswith('Item::None') for x in walk(b['body']) if x.get('k') in ('p_expr', 'path', 'p_struct', 'p_tuplestruct')):
            direct[d] = True
        ds = set()
        for n in calls_in(b['body']):
            for c in callee_all(n):
                c0 = c
                if c0 in by_def and c0 != d:
                    ds.add(c0)
        deleg[d] = ds
    ok = dict(direct)
    # an observer found correct by evaluation (below) is as good a delegate as one that filters in plain sight
    _pending = []
    changed = True
    while changed:
        changed = False
        for d in obs.values():
            if not ok[d] and any(ok.get(x) for x in deleg[d]):
                ok[d] = True
                changed = True
    evaluated = {}

    def observed(label, d):
        """len / is_empty evaluated on a container holding a, a placeholder, b — and on one holding only a placeholder (None: cannot be evaluated)"""
        if label in evaluated:
            return evaluated[label]
        res = None
        if label.split('::')[0] in ('Table', 'InlineTable') and label.split('::')[-1] in ('contains_key', 'get', 'get_mut', 'get_key_value', 'get_key_value_mut') and len(label.split('::')) == 2:
            # a keyed lookup: the placeholder's key is not found, a real key is
            try:
                from .rules_containers import _table_model, fval, unopt, I as I_
                from .places import PlaceInterp, deref as deref_
                from .den import Evaluator, Unanalysable as _Un, EvalPanic as _Ep
                ty_ = 'toml_edit::table::Table' if label.startswith('Table::') else 'toml_edit::inline_table::InlineTable'
                val_ = lambda t: ('ctor', I_ + 'Value', (fval(t),))
                ghost = ('ctor', I_ + 'None')
                outs = []
                for q in ('a', 'ghost', 'zzz'):
                    r_ = deref_(PlaceInterp(Evaluator(facts)).apply_fn(facts.body(d), [_table_model(ty_, [('a', val_('a')), ('ghost', ghost), ('b', val_('b'))]), q]))
                    outs.append(bool(r_) if isinstance(r_, bool) else unopt(r_) is not None)
                res = outs == [True, False, False]
            except (_Un, _Ep, TypeError, KeyError, IndexError, AttributeError, ValueError):
                res = None
        if label.split('::')[0] in ('Table', 'InlineTable') and label.split('::')[-1] in ('len', 'is_empty'):
            try:
                from .rules_containers import _table_model, fval, I as I_
                from .places import PlaceInterp, deref as deref_
                from .den import Evaluator, Unanalysable as _Un, EvalPanic as _Ep
                ty_ = 'toml_edit::table::Table' if label.startswith('Table::') else 'toml_edit::inline_table::InlineTable'
                val_ = lambda t: ('ctor', I_ + 'Value', (fval(t),))
                ghost = ('ctor', I_ + 'None')
                r1 = deref_(PlaceInterp(Evaluator(facts)).apply_fn(facts.body(d), [_table_model(ty_, [('a', val_('a')), ('ghost', ghost), ('b', val_('b'))])]))
                r0 = deref_(PlaceInterp(Evaluator(facts)).apply_fn(facts.body(d), [_table_model(ty_, [('ghost', ghost)])]))
                res = (r1, r0) == ((2, 0) if label.endswith('::len') else (False, True))
            except (_Un, _Ep, TypeError, KeyError, IndexError, AttributeError, ValueError):
                res = None
        evaluated[label] = res
        return res
    for label, d in obs.items():
        if observed(label, d):
            ok[d] = True
    changed = True
    while changed:
        changed = False
        for d in obs.values():
            if not ok[d] and any(ok.get(x) for x in deleg[d]):
                ok[d] = True
                changed = True
    for label, d in sorted(obs.items()):
        b = facts.body(d)
        how = 'filters directly' if direct[d] else ('delegates to ' + ', '.join(sorted(by_def[x] for x in deleg[d] if ok.get(x))))
        ev_ = observed(label, d)
        if ev_ is not None:
            rep.check(R, label, ev_, 'evaluated on a container with a placeholder: the placeholder does not count', f'observer `{label}` evaluated on a container holding `a`, a placeholder and `b` '
                      f'(and on one holding only a placeholder) counts the placeholder: entries created by mutable indexing (`doc["x"]`) become visible through it', facts.loc(b))
            continue
        rep.check(R, label, ok[d], how, f'observer `{label}` neither tests for Item::None placeholders nor delegates to an observer that does: '
                  f'entries created by mutable indexing (`doc["x"]`) become visible through it', facts.loc(b))
    # R3: len shares the filter of iter
    R3 = rep.rule(rid3, 'len() counts what iter() yields (calls it, or applies the same is_none filter)', floor=3)
    for label in ('Table::len', 'InlineTable::len', 'TableLike(default)::len'):
        if label not in obs:
            rep.incomplete(R3, label, 'not found')
            continue
        b = facts.body(obs[label])
        ev_ = observed(label, obs[label])
        if ev_ is not None:
            rep.check(R3, label, ev_, 'evaluated: counts the visible entries', f'`{label}` evaluated on a container with a placeholder does not count what iteration yields', facts.loc(b))
            continue
        calls_iter = any(n.get('k') == 'mcall' and n.get('name') == 'iter' and peel(n['recv']).get('res') == 'Local' for n in walk(b['body']))
        refilter = any(n.get('k') == 'mcall' and n.get('name') in ('filter', 'count') for n in walk(b['body']))
        raw_len = any(n.get('k') == 'mcall' and n.get('name') == 'len' and peel(n['recv']).get('k') == 'field' for n in walk(b['body']))
        rep.check(R3, label, calls_iter and refilter and not raw_len, 'self.iter()..count()',
                  f'`{label}` does not count the filtered iterator (raw storage length would include placeholders)', facts.loc(b))
    for label in ('Table::is_empty', 'InlineTable::is_empty', 'TableLike(default)::is_empty'):
        if label in obs:
            b = facts.body(obs[label])
            ev_ = observed(label, obs[label])
            if ev_ is not None:
                rep.check(R3, label, ev_, 'evaluated: empty exactly when nothing is visible', f'`{label}` evaluated on a container with a placeholder disagrees with iteration', facts.loc(b))
                continue
            viaf = any(n.get('k') == 'mcall' and n.get('name') in ('len', 'iter') and peel(n['recv']).get('res') == 'Local' for n in walk(b['body']))
            rep.check(R3, label, viaf, 'via len()/iter()', f'`{label}` does not go through len()/iter()', facts.loc(b))


def field_reads_of(body):
    return {(n.get('adt'), n.get('name')) for n in walk(body['body']) if n.get('k') == 'field' and n.get('adt')}


def r4_key_identity(rep, facts):
    R = rep.rule('C16/R4', 'key identity: Hash, Eq and Ord of Key look at the key text only (never repr or decor), so equal keys hash equal', floor=4)
    KEY = 'toml_edit::key::Key'
    found = 0
    for imp in facts.impls:
        if imp.get('self_adt') != KEY:
            continue
        tr = imp.get('trait') or ''
        if tr in ('core::hash::Hash', 'core::cmp::PartialEq', 'core::cmp::Ord', 'core::cmp::PartialOrd', 'core::cmp::Eq'):
            for it in imp['items']:
                if not facts.has_body(it['def']):
                    continue
                b = facts.body(it['def'])
                found += 1
                if b.get('derived'):
                    rep.bad(R, f'{last_seg(tr)}::{it["name"]}', f'`{it["def"]}` is derived: it compares/hashes every field including repr and decor, so two '
                            f'spellings of one key become distinct map keys', facts.loc(b))
                    continue
                reads = {f for a, f in field_reads_of(b) if a == KEY}
                gets = any(n.get('k') == 'mcall' and n.get('name') == 'get' for n in walk(b['body']))
                other = reads - {'key'}
                deleg = any(n.get('k') == 'mcall' and n.get('name') in ('cmp', 'eq', 'partial_cmp', 'hash') and 'toml_edit::key::Key' in (peel(n['recv']).get('t') or '')
                            for n in walk(b['body']))
                rep.check(R, f'{last_seg(tr)}::{it["name"]}|{imp.get("trait_ref", "")[-40:]}', not other and (gets or reads == {'key'} or deleg), f'reads {sorted(reads) or ["get()" if gets else "delegates"]}',
                          f'`{it["def"]}` reads {sorted(other)}: key identity depends on formatting', facts.loc(b))
    rep.check(R, 'impls-found', found >= 4, f'{found} identity methods', f'only {found} Hash/Eq/Ord methods of Key found')
    # the map is keyed by Key and looked up by str through Borrow/Equivalent on the same text
    for imp in facts.impls:
        if imp.get('self_adt') == KEY and (imp.get('trait') or '').endswith('Borrow'):
            for it in imp['items']:
                if facts.has_body(it['def']):
                    b = facts.body(it['def'])
                    reads = {f for a, f in field_reads_of(b) if a == KEY}
                    gets = any(n.get('k') == 'mcall' and n.get('name') == 'get' for n in walk(b['body']))
                    rep.check(R, 'Borrow<str>::borrow', (reads <= {'key'}) and (gets or reads), 'borrows the key text', 'Borrow<str> for Key does not borrow the key text', facts.loc(b))


ALIASES = {'remove': {'remove', 'shift_remove'}, 'remove_entry': {'remove_entry', 'shift_remove_entry'}, 'new': {'new'},
           'with_capacity': {'with_capacity', 'new'}}


def map_identity(rep, R, facts):
    """trait impls that define the observable identity of a toml::Map"""
    mapty = 'toml::map::Map<alloc::string::String, toml::value::Value>'
    for trait, meth, inner in (('core::cmp::PartialEq', 'eq', 'eq'), ('core::clone::Clone', 'clone', 'clone')):
        if not facts.has_method(trait, mapty, meth):
            continue
        b = facts.body(facts.method(trait, mapty, meth))
        calls = []
        others = []
        for x in walk(b['body']):
            if x.get('k') == 'mcall':
                r = peel(x['recv'])
                if r.get('k') == 'field' and r.get('name') == 'map':
                    calls.append(x['name'])
                else:
                    others.append(x['name'])
        rep.check(R, f'Map as {last_seg(trait)}::{meth}', calls == [inner] and not others, f'self.map.{inner}(..)',
                  f'`{last_seg(trait)} for toml::Map` is {calls + others} instead of the backing map\'s own `{inner}`: ' +
                  ('equality then depends on iteration order under preserve_order, so a value no longer equals its re-decoded text whose entries the serializer re-ordered'
                   if meth == 'eq' else 'the copy is built differently from the original'), facts.loc(b))


def r5_map_delegate(rep, facts):
    R = rep.rule('C16/R5', 'toml::Map and its entry types are 1:1 delegates of the underlying map (BTreeMap, or IndexMap with shift_remove '
                 'under preserve_order)', floor=24)
    po = 'preserve_order' in set(facts.crates.get('toml', {}).get('features', []))
    n = 0
    for d, b in sorted(facts.bodies.items()):
        if not d.startswith('toml::map::'):
            continue
        m = None
        for ty in ('Map::<alloc::string::String, toml::value::Value>::', "OccupiedEntry::<'a>::", "VacantEntry::<'a>::"):
            if d.startswith('toml::map::' + ty):
                m = d[len('toml::map::' + ty):]
                owner = ty.split('::')[0]
        if m is None or '::' in m:
            continue
        calls = []
        for x in walk(b['body']):
            if x.get('k') == 'mcall':
                r = peel(x['recv'])
                if r.get('k') == 'field' and r.get('name') in ('map', 'vacant', 'occupied'):
                    calls.append(x['name'])
            if x.get('k') == 'call':
                p = (peel(x.get('f', {})).get('path') or '')
                if 'BTreeMap' in p or 'IndexMap' in p:
                    calls.append(last_seg(p))
        want = set(ALIASES.get(m, {m}))
        if m == 'remove' and po:
            want = {'shift_remove'}
        if m == 'remove' and not po:
            want = {'remove'}
        n += 1
        rep.check(R, f'{owner}::{m}', len(calls) == 1 and calls[0] in want, f'-> {calls}', f'`{d}` delegates to {calls}, expected exactly one call of {sorted(want)} on the inner map'
                  + (' (under preserve_order removal must be shift_remove to keep insertion order)' if m == 'remove' and po else ''), facts.loc(b))
    map_identity(rep, R, facts)
    # the storage type
    adt = facts.adts.get('toml::map::Map')
    ty = [f['ty'] for f in adt['variants'][0]['fields'] if f['name'] == 'map'][0] if adt else ''
    exp = 'indexmap::map::IndexMap<' if po else 'alloc::collections::btree::map::BTreeMap<'
    rep.check(R, 'Map.map|type', ty.startswith(exp), ty[:60], f'toml::Map stores `{ty}`, expected {exp}..> in this configuration')


def _marks(x, out):
    from .den import IterObj
    if isinstance(x, tuple):
        if len(x) == 2 and x[0] in ('elem', 'key') and isinstance(x[1], int):
            out.append(x)
        else:
            for y in x:
                _marks(y, out)
    elif isinstance(x, dict):
        for y in x.values():
            _marks(y, out)
    elif isinstance(x, list):
        for y in x:
            _marks(y, out)
    elif isinstance(x, IterObj):
        for y in x.rest():
            _marks(y, out)
    return out


def r2c_iteration_tables(rep, facts, rid='C16/R2c'):
    R = rep.rule(rid, 'iter / iter_mut / into_iter / len / is_empty of Table, InlineTable, Array and ArrayOfTables, evaluated on a storage of four slots of which the '
                 'second is an Item::None placeholder (and on a storage of placeholders only): every real entry is yielded exactly once, in storage order, with its '
                 'own key; placeholders are not yielded or counted; the shared and the mutable iterator agree', floor=16)
    from .den import Interp, Evaluator, Unanalysable, EvalPanic, IterObj
    NONE_ITEM = ('ctor', 'toml_edit::item::Item::None')
    key = lambda i: ('struct', 'toml_edit::key::Key', {'key': ('key', i), 'repr': ('opaque',), 'leaf_decor': ('opaque',), 'dotted_decor': ('opaque',)})
    val = lambda i: ('ctor', 'toml_edit::item::Item::Value', (('elem', i),))
    tab = lambda i: ('ctor', 'toml_edit::item::Item::Table', (('elem', i),))
    aot = lambda i: ('ctor', 'toml_edit::item::Item::ArrayOfTables', (('elem', i),))
    # a standard table holds every kind of item: its real entries are a value, a sub-table and an array of tables
    anyitem = lambda i: {0: val, 2: tab, 3: aot}.get(i, val)(i)
    cases = [('toml_edit::table::Table', 'items', True, anyitem), ('toml_edit::inline_table::InlineTable', 'items', True, val),
             ('toml_edit::array::Array', 'values', False, val), ('toml_edit::array_of_tables::ArrayOfTables', 'values', False, tab)]
    for ty, field, ismap, mk in cases:
        if ty not in facts.adts:
            continue
        short = last_seg(ty)
        for label, items, want_idx in (('mixed', [mk(0), NONE_ITEM, mk(2), mk(3)], [0, 2, 3]), ('placeholders', [NONE_ITEM, NONE_ITEM], [])):
            store = tuple((key(i), it) for i, it in enumerate(items)) if ismap else tuple(items)
            want = [([('key', i)] if ismap else []) + [('elem', i)] for i in want_idx]
            meths = [(f'{ty}::iter', 'iter'), (f'{ty}::iter_mut', 'iter_mut')]
            meths += [(d, 'into_iter' + ('(&)' if d.startswith("<&") else '')) for d in facts.bodies if d.endswith('::into_iter') and
                      (d.startswith(f'<{ty} as ') or d.startswith(f"<&'s {ty} as ") or d.startswith(f"<&'a {ty} as "))]
            for d, mname in meths:
                if not facts.has_body(d):
                    continue
                b = facts.body(d)
                try:
                    r = Interp(Evaluator(facts)).apply_fn(b, [('struct', ty, {field: store})])
                    xs = r.rest() if isinstance(r, IterObj) else (list(r[1]) if isinstance(r, tuple) and len(r) == 2 and r[0] == 'iter' else None)
                    if xs is None:
                        raise Unanalysable(f'does not evaluate to an iterator ({r!r:.60})')
                    got = [_marks(x, []) for x in xs]
                except EvalPanic as e:
                    rep.bad(R, f'{short}::{mname}|{label}', f'`{d}` panics on a storage with placeholders: {e}', facts.loc(b))
                    continue
                except Unanalysable as e:
                    rep.incomplete(R, f'{short}::{mname}|{label}', f'cannot evaluate `{d}`: {e}', facts.loc(b))
                    continue
                rep.check(R, f'{short}::{mname}|{label}', got == want, f'yields entries {want_idx}', f'`{d}` on slots [entry, placeholder, entry, entry] yields {got}, expected the entries '
                          f'{want_idx} with their own keys, each once, in order' if label == 'mixed' else f'`{d}` on a storage of placeholders yields {got}, expected nothing', facts.loc(b))
            # the counting observers agree with iteration (Array and ArrayOfTables count their Vec, which holds values / tables only: judged on iteration alone)
            if ismap:
                for d, wantv in ((f'{ty}::len', len(want_idx)), (f'{ty}::is_empty', not want_idx)):
                    if not facts.has_body(d):
                        continue
                    b = facts.body(d)
                    try:
                        r = Interp(Evaluator(facts)).apply_fn(b, [('struct', ty, {field: store})])
                    except (Unanalysable, EvalPanic) as e:
                        rep.incomplete(R, f'{short}::{last_seg(d)}|{label}', f'cannot evaluate `{d}`: {e}', facts.loc(b))
                        continue
                    rep.check(R, f'{short}::{last_seg(d)}|{label}', r == wantv and type(r) is type(wantv), f'{r}', f'`{d}` is {r} on a storage whose real entries are {want_idx} '
                              f'(placeholders left by mutable indexing must not count)', facts.loc(b))


def r2d_lookup_tables(rep, facts, rid='C16/R2d'):
    R = rep.rule(rid, 'lookups agree with iteration: on a table / inline table holding a real entry `a` and a placeholder left by mutable indexing under `ghost`, every '
                 'read-only lookup (get, get_key_value, contains_key, indexing an Item with a string) finds `a` and does not find `ghost` (evaluated)', floor=8)
    from .den import Interp, Evaluator, Unanalysable, EvalPanic
    NONE_ITEM = ('ctor', 'toml_edit::item::Item::None')
    key = lambda n: ('struct', 'toml_edit::key::Key', {'key': n, 'repr': ('opaque',), 'leaf_decor': ('opaque',), 'dotted_decor': ('opaque',)})
    val = ('ctor', 'toml_edit::item::Item::Value', (('ctor', 'toml_edit::value::Value::Integer', (('elem', 0),)),))
    store = ((key('a'), val), (key('ghost'), NONE_ITEM))
    tab = ('struct', 'toml_edit::table::Table', {'items': store, 'dotted': False, 'implicit': False})
    inl = ('struct', 'toml_edit::inline_table::InlineTable', {'items': store, 'dotted': False, 'implicit': False})
    found = lambda r: r is True or (isinstance(r, tuple) and r[:2] == ('ctor', 'core::option::Option::Some'))
    absent = lambda r: r is False or r == ('ctor', 'core::option::Option::None')
    cases = []
    for ty, model in (('toml_edit::table::Table', tab), ('toml_edit::inline_table::InlineTable', inl)):
        for m in ('get', 'get_key_value', 'contains_key'):
            cases.append((f'{ty}::{m}', lambda q, model=model: [model, q], f'{last_seg(ty)}::{m}'))
    cases.append(('<str as toml_edit::index::Index>::index', lambda q: [q, ('ctor', 'toml_edit::item::Item::Table', (tab,))], 'Item[str] over a table'))
    cases.append(('<str as toml_edit::index::Index>::index', lambda q: [q, ('ctor', 'toml_edit::item::Item::Value', (('ctor', 'toml_edit::value::Value::InlineTable', (inl,)),))], 'Item[str] over an inline table'))
    for d, mk, label in cases:
        if not facts.has_body(d):
            rep.incomplete(R, label, f'`{d}` not found')
            continue
        b = facts.body(d)
        try:
            ra = Interp(Evaluator(facts)).apply_fn(b, mk('a'))
            rg_ = Interp(Evaluator(facts)).apply_fn(b, mk('ghost'))
            rm = Interp(Evaluator(facts)).apply_fn(b, mk('missing'))
        except (Unanalysable, EvalPanic) as e:
            rep.incomplete(R, label, f'cannot evaluate `{d}`: {e}', facts.loc(b))
            continue
        ok = found(ra) and absent(rg_) and absent(rm)
        rep.check(R, label, ok, 'finds `a`, not the placeholder, not a missing key',
                  f'`{d}` ({label}): real entry {"found" if found(ra) else "NOT found"}, placeholder {"hidden" if absent(rg_) else "VISIBLE"}, missing key '
                  f'{"absent" if absent(rm) else "found"} — a key that iteration, len() and printing do not show can be looked up (or the reverse)', facts.loc(b))


def r2e_typed_lookups(rep, facts, rid='C16/R2e'):
    R = rep.rule(rid, 'the typed lookups of Table answer for the kind they name: on a table holding a scalar, an inline table, a sub-table, an array of tables and a '
                 'placeholder, contains_table / contains_value / contains_array_of_tables are true exactly where get(key) is an item of that kind (evaluated)', floor=3)
    from .den import Interp, Evaluator, Unanalysable, EvalPanic
    I, V = 'toml_edit::item::Item::', 'toml_edit::value::Value::'
    key = lambda n: ('struct', 'toml_edit::key::Key', {'key': n, 'repr': ('opaque',), 'leaf_decor': ('opaque',), 'dotted_decor': ('opaque',)})
    entries = (('scalar', ('ctor', I + 'Value', (('ctor', V + 'Integer', (('elem', 0),)),))), ('inline', ('ctor', I + 'Value', (('ctor', V + 'InlineTable', (('elem', 1),)),))),
               ('table', ('ctor', I + 'Table', (('elem', 2),))), ('array_of_tables', ('ctor', I + 'ArrayOfTables', (('elem', 3),))), ('ghost', ('ctor', I + 'None')))
    tab = ('struct', 'toml_edit::table::Table', {'items': tuple((key(n), it) for n, it in entries), 'dotted': False, 'implicit': False})
    want = {'contains_table': {'table'}, 'contains_value': {'scalar', 'inline'}, 'contains_array_of_tables': {'array_of_tables'}, 'contains_key': {'scalar', 'inline', 'table', 'array_of_tables'}}
    for m, yes in want.items():
        d = 'toml_edit::table::Table::' + m
        if not facts.has_body(d):
            rep.incomplete(R, m, f'`{d}` not found')
            continue
        b = facts.body(d)
        try:
            got = {n for n in [x for x, _ in entries] + ['missing'] if Interp(Evaluator(facts)).apply_fn(b, [tab, n]) is True}
        except (Unanalysable, EvalPanic) as e:
            rep.incomplete(R, m, f'cannot evaluate `{d}`: {e}', facts.loc(b))
            continue
        rep.check(R, m, got == yes, f'true for {sorted(yes)}', f'`{d}` is true for the entries {sorted(got)}, the kind it names is held by {sorted(yes)}: the typed lookup contradicts get()', facts.loc(b))


def r5b_iterator_wrappers(rep, facts):
    R = rep.rule('C16/R5b', 'the iterator types of toml::Map (Iter, IterMut, IntoIter, Keys, Values) forward every method of Iterator / DoubleEndedIterator / '
                 'ExactSizeIterator to the method of the same name of the wrapped iterator (iteration from the back really comes from the back)', floor=15)
    traits = ('core::iter::traits::iterator::Iterator', 'core::iter::traits::double_ended::DoubleEndedIterator', 'core::iter::traits::exact_size::ExactSizeIterator')
    for imp in facts.impls:
        if imp.get('trait') not in traits or not (imp.get('self_ty') or '').startswith('toml::map::'):
            continue
        for it in imp['items']:
            d = it['def']
            if it.get('kind') != 'AssocFn' and not facts.has_body(d):
                continue
            if not facts.has_body(d):
                continue
            b = facts.body(d)
            top = peel(b['body'])
            while top.get('k') == 'block' and not top.get('stmts') and top.get('expr'):
                top = peel(top['expr'])
            fw = None
            if top.get('k') == 'mcall' and peel(top['recv']).get('k') == 'field' and peel(peel(top['recv'])['base']).get('res') == 'Local':
                fw = top.get('name')
            rep.check(R, f'{last_seg(imp["self_ty"].split("<")[0])}::{it["name"]}', fw == it['name'], f'-> self.{peel(top["recv"]).get("name") if fw else "?"}.{fw}()',
                      f'`{d}` forwards to `{fw}` of the wrapped iterator instead of `{it["name"]}`' if fw else f'`{d}` is not a plain forward to the wrapped iterator', facts.loc(b))


EXT = 'core::iter::traits::collect::Extend'
FROMIT = 'core::iter::traits::collect::FromIterator'


def r6_sorting(rep, facts):
    R = rep.rule('C16/R6', 'sorting is a permutation applied where documented: each sort function sorts its own entries once and recurses only into '
                 'dotted children through the same function with the same comparison', floor=8)
    from .shared import sort_recursion
    sort_recursion(rep, R, facts)


def r7_bulk_insert(rep, facts):
    R = rep.rule('C16/R7', 'bulk insertion is repeated insertion: Extend for Table / InlineTable stores every pair with `items.insert` (an existing key keeps '
                 'its position and takes the new value, like insert), FromIterator goes through Extend, toml::Map forwards to its backing map', floor=5)
    for ty in ('toml_edit::table::Table', 'toml_edit::inline_table::InlineTable'):
        d = facts.method(EXT, ty, 'extend')
        b = facts.body(d)
        ops = sorted({n['name'] for n in walk(b['body']) if n.get('k') == 'mcall' and n.get('name') in ('insert', 'insert_full', 'entry', 'or_insert', 'or_insert_with', 'push', 'extend', 'insert_before', 'shift_insert')})
        in_loop = any(n.get('k') == 'loop' and any(x.get('k') == 'mcall' and x.get('name') == 'insert' for x in walk(n)) for n in walk(b['body']))
        rep.check(R, f'{ty}|extend', ops == ['insert'] and in_loop, 'for (k, v) in iter { self.items.insert(k, v) }',
                  f'`Extend for {last_seg(ty)}` stores pairs with {ops}: an incoming pair whose key already exists no longer replaces the old value (extend and insert disagree)', facts.loc(b))
        d2 = facts.method(FROMIT, ty, 'from_iter')
        b2 = facts.body(d2)
        ok2 = any(n.get('k') == 'mcall' and n.get('name') == 'extend' for n in walk(b2['body']))
        rep.check(R, f'{ty}|from_iter', ok2, 'from_iter = default + extend', f'`FromIterator for {last_seg(ty)}` no longer goes through Extend', facts.loc(b2))
    if 'toml' in facts.crates:
        ty = 'toml::map::Map<alloc::string::String, toml::value::Value>'
        if facts.has_method(EXT, ty, 'extend'):
            b = facts.body(facts.method(EXT, ty, 'extend'))
            ok = any(n.get('k') == 'mcall' and n.get('name') == 'extend' and peel(n['recv']).get('k') == 'field' and peel(n['recv']).get('name') == 'map' for n in walk(b['body']))
            rep.check(R, 'toml::Map|extend', ok, 'self.map.extend(iter)', 'Extend for toml::Map no longer forwards to the backing map', facts.loc(b))


def rules(rep, facts):
    if 'toml_edit' in facts.crates:
        R1 = rep.rule('C16/R1', 'no order-breaking storage operation (swap_remove*, IndexMap::remove, sort_unstable*, swap_indices) in toml_edit / toml', floor=2)
        order_ops(rep, R1, facts, floor_shift=6)
        r2_placeholders(rep, facts)
        r2c_iteration_tables(rep, facts)
        r2d_lookup_tables(rep, facts)
        r2e_typed_lookups(rep, facts)
        from .rules_containers import r8_map_summaries, r9c_sequence_summaries
        r8_map_summaries(rep, facts)
        r9c_sequence_summaries(rep, facts)
        r4_key_identity(rep, facts)
        r6_sorting(rep, facts)
        r7_bulk_insert(rep, facts)
        from .rules_c08 import r2_inplace
        r2_inplace(rep, facts)
        rep.relabel('C08/R2', 'C16/R8', 'an existing key keeps its position on insertion (ordered-map law): ')
    if 'toml' in facts.crates:
        r5_map_delegate(rep, facts)
        r5b_iterator_wrappers(rep, facts)
        from .rules_containers import r9b_toml_map_summaries
        r9b_toml_map_summaries(rep, facts)


def _crossref(rep):
    from .shared import clippy_crossref
    clippy_crossref(rep, 'C16/R1x')


def run(tier):
    return run_property(PROP, tier, rules, configs_quick=('default', 'preserve_order'),
                        configs_thorough=['default', 'perf', 'preserve_order', 'perf_preserve_order', 'toml_parse_po', 'toml_display_po', 'toml_nodefault', 'edit_nodefault'], extra=_crossref if tier == 'thorough' else None)
