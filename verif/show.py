#!/usr/bin/env python3
"""Developer aid: pretty-print the HIR tree / MIR summary of one function from a facts dir.
usage: show.py <factsdir> <crate> <def-substring> [--mir]"""
import json, sys

def show(n, ind=0, out=None):
    if isinstance(n, dict):
        head = {kk: v for kk, v in n.items() if not isinstance(v, (dict, list)) or (isinstance(v, list) and v and not isinstance(v[0], (dict, list)))}
        print(' ' * ind + json.dumps(head)[:260])
        for kk, v in n.items():
            if isinstance(v, dict) or (isinstance(v, list) and v and isinstance(v[0], (dict, list))):
                print(' ' * (ind + 1) + kk + ':')
                show(v, ind + 2)
    elif isinstance(n, list):
        for x in n:
            show(x, ind)

if __name__ == '__main__':
    if sys.argv[1].startswith('@'):
        import os
        sys.path.insert(0, os.path.dirname(os.path.dirname(os.path.abspath(__file__))))
        from verif.core import facts_dir
        sys.argv[1] = facts_dir(sys.argv[1][1:] or 'default')
    d = json.load(open(f'{sys.argv[1]}/{sys.argv[2]}.json'))
    key = 'mir' if '--mir' in sys.argv else 'bodies'
    for b in d[key]:
        if sys.argv[3] in b['def']:
            print('=====', b['def'], b.get('file'), b.get('line'))
            if key == 'mir':
                for i, bl in enumerate(b['blocks']):
                    print(i, json.dumps(bl)[:400])
            else:
                show(b.get('params'), 1)
                show(b['body'], 1)
