"""printdrive.py — evaluating the printer (Display for DocumentMut and what it calls) on model documents.

PrintInterp is PlaceInterp with the writes recorded (`write_str`, `write!`), the blanket `to_toml_key` / `to_toml_value` conversions of toml_write
(write into a fresh String and return it) and trait methods on primitive values (`5.to_repr()`, `"k".write_toml_key(w)`) resolved to the workspace impl for
the primitive's type.  `printed(..)` returns the text a model document prints as."""
from .core import peel, last_seg, strip_generics
from .den import Unanalysable, EvalPanic, VecObj
from .places import PlaceInterp, MapObj, deref, plain


def prim_type(v):
    if isinstance(v, bool):
        return ('bool',)
    if isinstance(v, int):
        return ('i64',)
    if isinstance(v, float):
        return ('f64',)
    if isinstance(v, str):
        return ('str', 'alloc::string::String')
    from .den import VecObj
    from .places import MapObj
    if isinstance(v, VecObj):
        return ('[V]', 'alloc::vec::Vec<V>')          # (the blanket impls for sequences and maps)
    if isinstance(v, MapObj) and v.sorted:
        return ('alloc::collections::btree::map::BTreeMap<K, V>',)
    return ()


class PrintInterp(PlaceInterp):
    MAX_DEPTH = 120

    def __init__(self, ev):
        super().__init__(ev, {'write_str'})

    def text(self, since=0):
        return ''.join(str(a[0]) for n, a in self.calls[since:] if n == 'write_str')

    def display_of(self, v):
        v = deref(v)
        t = self.type_of(v)
        d = self.ev.facts.method('core::fmt::Display', t, 'fmt') if t else None
        if not d or not self.ev.facts.has_body(d):
            raise Unanalysable(f'Display of a `{t}` value: no workspace impl')
        n0 = len(self.calls)
        self.apply_fn(self.ev.facts.body(d), [v, ('formatter',)])
        out = self.text(n0)
        del self.calls[n0:]
        return out

    def _impl_for_prim(self, v, name):
        for t in prim_type(v):
            c = [d for d in self.ev.facts.bodies if (d.startswith(f'<{t} as ') and d.endswith('>::' + name)) or d.endswith(f' for {t}>::{name}')]
            if len(c) == 1:
                return self.ev.facts.body(c[0])
        return None

    def val(self, e, env):
        if e.get('k') == 'call':
            p = (peel(e.get('f', {})).get('path') or '').split('::<')[0]
            if p == 'alloc::fmt::format' and len(e.get('args', [])) == 1:
                return self.format_text({'args': e['args'], 'l': e.get('l'), 'k': 'mcall', 'name': 'write_fmt'}, env)       # `format!(..)`: the text
            if p == 'core::hint::must_use' and len(e.get('args', [])) == 1:
                return self.val(e['args'][0], env)
            if p == 'core::fmt::Display::fmt' and len(e.get('args', [])) == 2 and not e.get('resolved'):
                # `Display::fmt(&self.key, f)`: the Display impl of the argument's type writes to the same formatter
                a0 = deref(self.val(e['args'][0], env))
                text = a0 if isinstance(a0, str) else self.display_of(a0)
                self.calls.append(('write_str', [text]))
                self.trace.append(('write_str', None, [text]))
                return ('ctor', 'core::result::Result::Ok', ((),))
        return super().val(e, env)

    def _mcall(self, e, env):
        name = e.get('name') or ''
        if name == 'trim_end_matches' and len(e.get('args', [])) == 1:
            recv = deref(self.val(e['recv'], env))
            pat = deref(self.val(e['args'][0], env))
            if isinstance(recv, str) and isinstance(pat, (str, int)):
                return recv.rstrip(pat if isinstance(pat, str) else chr(pat))
        if name in ('to_toml_key', 'to_toml_value') and not e.get('args'):
            recv = deref(self.val(e['recv'], env))
            wname = 'write_toml_key' if name == 'to_toml_key' else 'write_toml_value'
            body = self._impl_for_prim(recv, wname)
            if body is None:
                t = self.type_of(recv)
                c = [d for d in self.ev.facts.bodies if d.startswith(f'<{t}') and d.endswith('>::' + wname)] if t else []
                body = self.ev.facts.body(c[0]) if len(c) == 1 else None
            if body is None:
                raise Unanalysable(f'`{name}` on a value without a workspace writer impl')
            n0 = len(self.calls)
            self.apply_fn(body, [recv, ('writer',)])
            out = self.text(n0)
            del self.calls[n0:]
            return out
        if name == 'get' and len(e.get('args', [])) == 1:
            recv = deref(self.val(e['recv'], env))
            if isinstance(recv, str):
                r = deref(self.val(e['args'][0], env))
                if isinstance(r, tuple) and len(r) == 3 and r[0] == 'range' and isinstance(r[1], int) and isinstance(r[2], int):
                    # str::get(range): None unless the range lies inside the text on character boundaries
                    a, b = r[1], r[2] + 1
                    raw = recv.encode()
                    okb = lambda i: 0 <= i <= len(raw) and (i == len(raw) or (raw[i] & 0xC0) != 0x80)
                    if a <= b and okb(a) and okb(b):
                        return ('ctor', 'core::option::Option::Some', (raw[a:b].decode(),))
                    return ('ctor', 'core::option::Option::None')
                raise Unanalysable('str::get with an index the evaluator does not model')
            return super()._mcall(dict(e, recv=self._bindnode(recv, env, e['recv'])), env)
        if name in ('split_once', 'rsplit_once') and len(e.get('args', [])) == 1:
            recv = deref(self.val(e['recv'], env))
            sep = deref(self.val(e['args'][0], env))
            if isinstance(recv, str) and isinstance(sep, (str, int)):
                sep = sep if isinstance(sep, str) else chr(sep)
                i = recv.find(sep) if name == 'split_once' else recv.rfind(sep)
                if i < 0:
                    return ('ctor', 'core::option::Option::None')
                return ('ctor', 'core::option::Option::Some', ((recv[:i], recv[i + len(sep):]),))
        if name == 'split' and len(e.get('args', [])) == 1:
            recv = deref(self.val(e['recv'], env))
            sep = deref(self.val(e['args'][0], env))
            if isinstance(recv, str) and isinstance(sep, (str, int)):
                from .den import IterObj
                return IterObj(recv.split(sep if isinstance(sep, str) else chr(sep)))
        if self._workspace_method(e) is None and name not in self.stubs:
            try:
                recv = self.val(e['recv'], env)
            except Unanalysable:
                return super()._mcall(e, env)
            dv = deref(recv)
            if prim_type(dv) and name not in ('len', 'is_empty', 'as_str', 'to_string', 'to_owned', 'clone', 'into', 'as_ref', 'as_bytes', 'bytes', 'chars', 'eq', 'ne', 'push', 'push_str'):
                body = self._impl_for_prim(dv, name)
                if body is not None:
                    return self.apply_fn(body, [dv] + [self.val(a, env) for a in e.get('args', [])])
            from .places import _has_call
            if not _has_call(e['recv']):
                return super()._mcall(e, env)          # a plain place: keep it a place (`self.trailing.take()` writes through it)
            return super()._mcall(dict(e, recv=self._bindnode(recv, env, e['recv'])), env)
        return super()._mcall(e, env)


def printed(facts, doc):
    d = facts.method('core::fmt::Display', 'toml_edit::document::DocumentMut', 'fmt')
    it = PrintInterp(__import__('verif.den', fromlist=['Evaluator']).Evaluator(facts))
    it.apply_fn(facts.body(d), [doc, ('formatter',)])
    return it.text()
