"""C11 — numbers are lossless or rejected (decided part: checked conversions, two-sided
overflow guard, lossless casts, float writers' case tables)."""
import math
import re

from .core import run_property, AnalysisIncomplete, walk, peel, last_seg, calls_in, callee_all, src_facts, strip_generics
from .den import Evaluator, FloatInterp, Interp, Unanalysable, FLOAT_REPS
from . import parsemodel as pm
from .parsemodel import P, term

PROP = 'C11'

INT_BITS = {'u8': (8, False), 'u16': (16, False), 'u32': (32, False), 'u64': (64, False), 'u128': (128, False), 'usize': (64, False),
            'i8': (8, True), 'i16': (16, True), 'i32': (32, True), 'i64': (64, True), 'i128': (128, True), 'isize': (64, True)}


def lossless_cast(frm, to):
    frm = frm.lstrip('&').strip()
    if frm == to:
        return True
    if frm in INT_BITS and to in INT_BITS:
        fb, fs = INT_BITS[frm]
        tb, ts = INT_BITS[to]
        if fs == ts:
            return tb >= fb
        if not fs and ts:
            return tb > fb
        return False
    if frm in ('u8',) and to == 'char':
        return True
    if frm == 'bool' and to in INT_BITS:
        return True
    if frm == 'f32' and to == 'f64':
        return True
    if frm in INT_BITS and to in ('f64',) and INT_BITS[frm][0] <= 32:
        return True
    if 'dyn ' in to or to.startswith('&') or to.startswith('*'):
        return True  # unsizing / pointer casts carry no numeric value
    return False


def casts_with_ancestors(body, own_macros=()):
    """[(cast node, [ancestor nodes])]; casts written inside the expansion of a standard-library macro are not the workspace's own, those inside one of
    the workspace's macro_rules! are"""
    out = []

    def rec(n, anc):
        if isinstance(n, dict):
            if n.get('k') == 'cast' and (not n.get('x') or n.get('m') in own_macros):
                out.append((n, list(anc)))
            anc.append(n)
            for v in n.values():
                rec(v, anc)
            anc.pop()
        elif isinstance(n, list):
            for v in n:
                rec(v, anc)
    rec(body['body'], [])
    return out


def operand_local(n):
    n = peel(n)
    if n.get('k') == 'path' and n.get('res') == 'Local':
        return n['path']
    return None


def guarded(cast, anc, target):
    """a dominating successful range check on the same operand: try_from(x).is_ok(), x < small const, x.is_ascii_digit()"""
    loc = operand_local(cast['a'])
    if loc is None:
        return None
    conds = []
    for i, a in enumerate(anc):
        if a.get('k') == 'if' and i + 1 < len(anc) and anc[i + 1] is a.get('then'):
            conds.append(a['cond'])
        if a.get('k') == 'match':
            for arm in a.get('arms', []):
                if i + 1 < len(anc) and (anc[i + 1] is arm or anc[i + 1] is arm.get('body')):
                    if 'guard' in arm:
                        conds.append(arm['guard'])
    # arms are dicts inside the 'arms' list; the ancestor chain contains the arm dict itself
    for i, a in enumerate(anc):
        if isinstance(a, dict) and 'pat' in a and 'body' in a and 'guard' in a:
            conds.append(a['guard'])
    for c in conds:
        for n in walk(c):
            if n.get('k') == 'mcall' and n.get('name') == 'is_ok':
                r = peel(n['recv'])
                if r.get('k') == 'call' and last_seg((peel(r.get('f', {})).get('path') or '')) == 'try_from' and target in ((peel(r.get('f', {})).get('path') or '') + (r.get('t') or '')):
                    if operand_local(r['args'][0]) == loc:
                        return f'dominated by {target}::try_from({loc.split("#")[0]}).is_ok()'
            if n.get('k') == 'binary' and n.get('op') in ('<', '<='):
                if operand_local(n['a']) == loc and peel(n['b']).get('k') == 'lit' and isinstance(peel(n['b']).get('v'), int) and peel(n['b'])['v'] < 2 ** 31:
                    return f'dominated by {loc.split("#")[0]} {n["op"]} {peel(n["b"])["v"]}'
            if n.get('k') == 'mcall' and n.get('name') in ('is_ascii_digit', 'is_ascii') and operand_local(n['recv']) == loc:
                return f'dominated by {loc.split("#")[0]}.{n["name"]}()'
    return None


def r1_overflow_guard(rep, facts, g):
    R = rep.rule('C11/R1', 'the float overflow guard is two-sided: the predicate verified after parse::<f64> accepts every finite value '
                 'and rejects both +infinity and -infinity', floor=1)
    t = term(g, 'numbers::float')
    loc = facts.loc(facts.body(P + 'numbers::float'))
    fl = [x for x in pm.filters(g, t) if x[0] == 'verify']
    if len(fl) != 1:
        rep.bad(R, 'numbers::float|verify', f'expected exactly one verify after parse::<f64>, found {len(fl)}: decimal literals that overflow a double are accepted as infinities', loc)
        return
    clo = pm.closure_of(fl[0][2].get('filt'))
    it = FloatInterp(Evaluator(facts))
    res = {}
    try:
        var = clo['params'][0]['name']
        for name, v in FLOAT_REPS.items():
            if 'nan' in name:
                continue
            res[name] = bool(it.run(clo['body'], {var: v}))
    except (Unanalysable, TypeError, KeyError, IndexError) as e:
        rep.incomplete(R, 'numbers::float|verify', f'cannot tabulate the overflow predicate: {e}', loc)
        return
    wrong = {k: v for k, v in res.items() if v != (k not in ('inf', '-inf'))}
    rep.check(R, 'numbers::float|verify', not wrong, f'accepts finite, rejects +inf and -inf ({len(res)} representatives)',
              f'the overflow guard gives {wrong} (accept = true): a decimal literal whose magnitude overflows is accepted as an infinity on one side', loc)


def r2_checked(rep, facts):
    R = rep.rule('C11/R2', 'no wrapping / saturating / overflowing arithmetic or defaulted parse result in the number parser', floor=1)
    bad = []
    n = 0
    for d, b in facts.bodies.items():
        if not d.startswith(P + 'numbers::'):
            continue
        n += 1
        for c in calls_in(b['body']):
            for name in callee_all(c):
                seg = last_seg(name)
                if seg.startswith(('wrapping_', 'saturating_', 'overflowing_', 'unchecked_')) or seg in ('unwrap_or', 'unwrap_or_default', 'unwrap_or_else') and 'Result' in name:
                    bad.append((d, name, c.get('l')))
    rep.check(R, 'parser::numbers|checked-only', not bad, f'{n} bodies scanned', f'non-checked arithmetic / defaulted conversion in the number parser: {bad[:3]}')


def r3_casts(rep, facts):
    R = rep.rule('C11/R3', 'every `as` cast in the five crates is lossless by type, or dominated by a successful range check on the same '
                 'operand; u64 -> i64 on the serde paths goes through a checked conversion', floor=18)
    own_macros = {m['name'] for m in src_facts(facts.repo)['macros']}
    for d, b in sorted(facts.bodies.items()):
        if b.get('derived'):
            continue
        idx = 0
        for c, anc in casts_with_ancestors(b, own_macros):
            frm = (peel(c['a']).get('t') or '?')
            if peel(c['a']).get('k') == 'path' and c['a'].get('k') == 'unary':
                frm = c['a'].get('t') or frm
            frm = (c['a'].get('t') or frm)
            to = c.get('t') or '?'
            key = f'{d}|{frm}->{to}#{idx}'
            idx += 1
            if lossless_cast(frm, to):
                rep.ok(R, key, 'lossless by type', facts.loc(b, c))
                continue
            why = guarded(c, anc, to)
            if why is None:
                from .shared import TABULATED
                if d in TABULATED:
                    why = f'no dominating check in the source, but every evaluation of the {TABULATED[d]} tabulation keeps the operand in range (casts are checked there)'
            rep.check(R, key, why is not None, why or '', f'`{d}` casts {frm} as {to} without a dominating range check on the operand: '
                      f'out-of-range values wrap silently', facts.loc(b, c))
    # serialize_u64 / visit_u64 are checked
    for imp in facts.impls:
        if imp.get('trait') == 'serde::ser::Serializer':
            names = {it['name']: it['def'] for it in imp['items']}
            for wide in ('serialize_i128', 'serialize_u128'):
                if wide in names and facts.has_body(names[wide]):
                    b = facts.body(names[wide])
                    errs = any((x.get('path') or '').endswith('Result::Err') for x in walk(b['body']) if x.get('k') == 'path')
                    chk = any(last_seg(cn) in ('try_from', 'try_into') for c in calls_in(b['body']) for cn in callee_all(c))
                    rep.check(R, f'{imp["self_ty"]}|{wide}', errs or chk, 'errors or converts checked', f'`{names[wide]}` accepts 128-bit integers without a checked conversion', facts.loc(b))
            if 'serialize_u64' in names and facts.has_body(names['serialize_u64']):
                b = facts.body(names['serialize_u64'])
                segs = {last_seg(cn) for c in calls_in(b['body']) for cn in callee_all(c)}
                out = facts.fns.get(names['serialize_u64'], {}).get('output', '')
                always_err = not any((x.get('path') or '').endswith('Result::Ok') for x in walk(b['body']) if x.get('k') == 'path') and not (segs & {'serialize_i64', 'serialize_u64', 'write_value'})
                ok = bool(segs & {'try_from', 'try_into'}) or always_err or bool(segs & {'serialize_u64'})
                rep.check(R, f'{imp["self_ty"]}|serialize_u64', ok, 'checked (try_from / try_into), delegating, or always Err',
                          f'`{names["serialize_u64"]}` turns u64 into a TOML integer without a checked conversion', facts.loc(b))


def writer_table(facts, d, src):
    """which `write!` the body reaches for each representative float: the body is followed as a decision tree (let / if / match in any nesting,
    conditions evaluated over IEEE doubles), whatever its syntactic form"""
    b = facts.body(d)
    it = FloatInterp(Evaluator(facts))
    selfv = [p['name'] for p in b['params'] if p.get('k') == 'p_bind' and p['name'].startswith('self')][0]
    fm = {f['line']: f['lit'] for f in src['fmts'] if f['file'].endswith('toml_write/src/value.rs')}

    def descr(e, env, depth=0):
        if depth > 40:
            raise Unanalysable('decision tree too deep')
        k = e.get('k')
        if k == 'block':
            env = dict(env)
            for st in e.get('stmts', []):
                if st.get('k') == 'let' and 'init' in st:
                    it.bind(st['pat'], it.run(st['init'], env), env)
                elif st.get('k') == 'semi' and peel(st['e']).get('k') in ('if', 'match', 'block'):
                    raise Unanalysable('statement-position branch in a float writer')
            if e.get('expr') is not None:
                return descr(e['expr'], env, depth + 1)
            raise Unanalysable('float writer block without a value')
        if k == 'if':
            c = it.run(e['cond'], env)
            if c:
                return descr(e['then'], env, depth + 1)
            if 'else' not in e:
                raise Unanalysable('if without else in a float writer')
            return descr(e['else'], env, depth + 1)
        if k == 'match' and 'TryDesugar' not in (e.get('src') or ''):
            sc = it.run(e['scrut'], env)
            for arm in e['arms']:
                e2 = dict(env)
                if it.matches(arm['pat'], sc, e2) and ('guard' not in arm or arm['guard'] is None or it.run(arm['guard'], e2)):
                    return descr(arm['body'], e2, depth + 1)
            raise Unanalysable('no arm matches')
        lits = [n.get('v') for n in walk(e) if n.get('k') == 'lit' and n.get('lk') == 'str']
        if lits:
            return lits[0]
        l = e.get('l')
        if l in fm:
            text = fm[l].strip('"')

            def cap(m):
                # an inline capture of a local that holds the value being written reads as `{self}` (`let value = *self; write!(w, "{value}.0")`)
                ident = m.group(1)

                def f32(x):
                    import struct
                    try:
                        return struct.unpack('f', struct.pack('f', x))[0] if isinstance(x, float) else x
                    except OverflowError:
                        return math.copysign(math.inf, x)
                same = lambda x, y: x == y or (isinstance(x, float) and isinstance(y, float) and x != x and y != y and math.copysign(1, x) == math.copysign(1, y))
                for key, val in env.items():
                    if key.split('#')[0].split('~')[0] == ident and (same(val, env.get(selfv)) or same(f32(val), f32(env.get(selfv)))):
                        return '{self}'
                # the captured local may have been a parameter of an expanded helper (verif/normalise.py): then the argument expression stands in
                # its place among the arguments of format_args!
                recv = peel(e.get('recv', {})) if e.get('k') == 'mcall' else {}
                argv = []
                for a in e.get('args', []) if e.get('k') == 'mcall' else []:
                    for x in walk(a):
                        if x.get('k') == 'path' and x.get('res') == 'Local' and x.get('path') != recv.get('path') and x.get('path') in env:
                            argv.append(env[x['path']])
                if argv and all(same(v, env.get(selfv)) or same(f32(v), f32(env.get(selfv))) for v in argv):
                    return '{self}'
                return m.group(0)
            return re.sub(r'\{([A-Za-z_][A-Za-z0-9_]*)(:[^}]*)?\}', lambda m: cap(m) if m.group(2) is None else m.group(0), text) if True else text
        raise Unanalysable(f'cannot describe the output at line {l}')
    table = {}
    for name, v in FLOAT_REPS.items():
        table[name] = descr(b['body'], {selfv: v})
    return b, table


EXPECT_WRITER = {'-nan': '-nan', 'nan': 'nan', '-0.0': '-0.0', '0.0': '0.0', '2.0': '{self}.0', '-2.0': '{self}.0', '1e20': '{self}.0', '1.5': '{self}',
                 '-1.5': '{self}', '5e-324': '{self}', 'max': '{self}.0', '-max': '{self}.0', 'inf': '{self}', '-inf': '{self}',
                 '1+ulp': '{self}', '1000+ulp': '{self}', '2^52-0.5': '{self}', '1-ulp': '{self}', '-(1+ulp)': '{self}'}


def r4_writers(rep, facts):
    R = rep.rule('C11/R4', 'f64 and f32 writers have the same, total case table: -nan / nan / -0.0 / 0.0 literals, `.0` appended exactly to '
                 'integral finite values, plain shortest digits otherwise (inf / -inf through Display)', floor=28)
    src = src_facts(facts.repo)
    for ty in ('f64', 'f32'):
        d = f'<{ty} as toml_write::value::WriteTomlValue>::write_toml_value'
        try:
            b, table = writer_table(facts, d, src)
        except (Unanalysable, AnalysisIncomplete, IndexError, KeyError) as e:
            if facts.has_body(d):
                b = facts.body(d)
                rep.bad(R, f'{ty}|case-table', f'`WriteTomlValue for {ty}` is not a float case table ({e}): it must reach the f64 rules (nan / -0.0 / `.0` suffix), '
                        f'plain Display prints `1`, `NaN`, `-0`', facts.loc(b))
            else:
                rep.incomplete(R, f'{ty}|case-table', str(e))
            continue
        for name, exp in EXPECT_WRITER.items():
            rep.check(R, f'{ty}|{name}', table.get(name) == exp, f'{name} -> {table.get(name)!r}', f'`{ty}` value {name} is written with {table.get(name)!r}, expected {exp!r}', facts.loc(b))


def r6_nan_policy(rep, facts):
    R = rep.rule('C11/R6', 'both value serializers normalise the NaN sign the same way (copysign(1.0) under is_nan)', floor=2)
    for d in ("<toml_edit::ser::value::ValueSerializer as serde::ser::Serializer>::serialize_f64", "<toml::value::ValueSerializer as serde::ser::Serializer>::serialize_f64"):
        if not facts.has_body(d):
            continue
        b = facts.body(d)
        ok = False
        for n in walk(b['body']):
            if n.get('k') == 'if' and peel(n['cond']).get('k') == 'mcall' and peel(n['cond']).get('name') == 'is_nan':
                cs = [x for x in walk(n['then']) if x.get('k') == 'mcall' and x.get('name') == 'copysign']
                ok = len(cs) == 1 and float(peel(cs[0]['args'][0]).get('v', '0')) > 0
        rep.check(R, d.split(' as ')[0].lstrip('<'), ok, 'if v.is_nan() { v = v.copysign(1.0) }', f'`{d}` does not normalise the NaN sign like its twin', facts.loc(b))


def r7_widening(rep, facts, rid='C11/R7'):
    R = rep.rule(rid, 'a narrow number is widened exactly before it is stored: every Serializer::serialize_f32 / i8..i32 / u8..u32 that forwards to serialize_f64 / '
                 'serialize_i64 hands over the same number (for f32 the double with the same value, not one re-read from a decimal rendering).  Decided by evaluating the '
                 'methods on boundary values with the wide method recorded', floor=7)
    from .den import RecInterp, EvalPanic
    import struct

    class FloatRec(FloatInterp, RecInterp):
        pass
    f32 = lambda x: struct.unpack('f', struct.pack('f', x))[0]
    fsamples = [f32(0.1), 1.5, -0.0, 0.0, float('inf'), float('-inf'), 3.4028234663852886e38, 1.401298464324817e-45, f32(7.038531e-26), -f32(16777217.0)]
    bits = lambda x: struct.pack('>d', x)
    n = 0
    for imp in facts.impls:
        if imp.get('trait') != 'serde::ser::Serializer':
            continue
        items = {it['name']: it['def'] for it in imp['items']}
        for meth, wide, samples in [('serialize_f32', 'serialize_f64', fsamples)] + \
                [(f'serialize_{t}', 'serialize_i64', vals) for t, vals in (('i8', (-128, -1, 0, 127)), ('i16', (-32768, 0, 32767)), ('i32', (-2 ** 31, 0, 2 ** 31 - 1)),
                                                                         ('u8', (0, 255)), ('u16', (0, 65535)), ('u32', (0, 2 ** 32 - 1)))]:
            d = items.get(meth)
            if not d or not facts.has_body(d):
                continue
            b = facts.body(d)
            # only methods that hand the number on to another serialize_* method of the same serializer (followed down to the wide one; plain forwarders
            # to another serializer are judged there)
            selfn = [p_['name'] for p_ in b['params'] if p_.get('k') == 'p_bind'][0]
            if not any(x.get('k') == 'mcall' and (x.get('name') or '').startswith('serialize_') and peel(x['recv']).get('path') == selfn for x in walk(b['body'])):
                continue
            pn = [p_['name'] for p_ in b['params'] if p_.get('k') == 'p_bind']
            bad = []
            try:
                for v in samples:
                    it = FloatRec(Evaluator(facts), {wide})
                    it.checked_arith = True      # a lossy cast on the way (`v as i32`) is a panic of the evaluation
                    try:
                        it.run_body(b, {pn[0]: ('self',), pn[1]: v, '@assign': {}})
                    except EvalPanic as e:
                        bad.append(f'{v!r}: panics ({e})')
                        continue
                    got = [a[0] for nm, a in it.calls if nm == wide and a]
                    same = len(got) == 1 and type(got[0]) is type(v) and (bits(got[0]) == bits(v) if isinstance(v, float) else got[0] == v)
                    if not same:
                        bad.append(f'{v!r} is handed on as {got!r}')
            except Unanalysable as e:
                rep.bad(R, f'{imp.get("self_ty")}|{meth}', f'`{d}` does not hand its argument to {wide} by a plain widening (`v as _` / `.into()`): {e} — a detour (for f32: through the '
                        f'decimal text) can change the value', facts.loc(b))
                n += 1
                continue
            n += 1
            rep.check(R, f'{imp.get("self_ty")}|{meth}', not bad, f'{len(samples)} values handed to {wide} unchanged', f'`{d}`: {"; ".join(bad[:3])}', facts.loc(b))
    want = 12 if 'toml' in facts.crates else 6
    rep.check(R, 'count', n >= want, f'{n} widening methods evaluated', f'only {n} widening serializer methods found (at least {want} expected in this configuration)')


def rules(rep, facts):
    feats = set(facts.crates.get('toml_edit', {}).get('features', []))
    if 'toml_edit' in facts.crates and 'parse' in feats:
        g = pm.model(facts)
        r1_overflow_guard(rep, facts, g)
        r2_checked(rep, facts)
    r3_casts(rep, facts)
    if 'toml_write' in facts.crates:
        r4_writers(rep, facts)
    r6_nan_policy(rep, facts)
    if 'toml_edit' in facts.crates and 'serde' in feats:
        r7_widening(rep, facts)


def run(tier):
    return run_property(PROP, tier, rules, configs_thorough=['default', 'perf', 'preserve_order', 'write_nodefault', 'toml_display', 'toml_parse'])
