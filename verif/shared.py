"""Rules shared by several properties (each property registers them under its own id)."""
from .core import walk, callee_all, last_seg, strip_generics

BANNED_SEGS = {'swap_remove', 'swap_remove_entry', 'swap_remove_full', 'swap_remove_index', 'swap_indices', 'move_index',
               'sort_unstable', 'sort_unstable_by', 'sort_unstable_by_key', 'sort_unstable_keys', 'sort_unstable_by_cached_key',
               'select_nth_unstable', 'rotate_left', 'rotate_right'}
# deprecated aliases of swap-remove on IndexMap / IndexSet
BANNED_FULL = ('indexmap::map::IndexMap::remove', 'indexmap::map::IndexMap::remove_entry', 'indexmap::map::IndexMap::remove_full',
               'indexmap::map::core::entry::OccupiedEntry::remove', 'indexmap::map::core::entry::OccupiedEntry::remove_entry',
               'indexmap::set::IndexSet::remove', 'indexmap::set::IndexSet::take')


def order_ops(rep, rid, facts, crates=('toml_edit', 'toml'), floor_shift=6):
    """who-may-call: no order-breaking storage operation anywhere in the library code of `crates`;
    positive control: the same query finds the order-preserving shift_remove family."""
    bad = []
    shift = 0
    n_bodies = 0
    for d, b in facts.bodies.items():
        crate = d.lstrip('<').split('::')[0]
        if ' as ' in d.split('>::')[0]:
            crate = d.lstrip('<').split('::')[0]
        owner = None
        for c in crates:
            if d.startswith(c + '::') or d.startswith('<' + c + '::') or (f' {c}::' in d.split('>::')[0]):
                owner = c
        if owner is None:
            continue
        n_bodies += 1
        for n in walk(b['body']):
            if n.get('k') not in ('call', 'mcall') and not (n.get('k') == 'path' and n.get('res') in ('Fn', 'AssocFn')):
                continue
            names = callee_all(n) if n.get('k') in ('call', 'mcall') else [n.get('resolved'), n.get('path')]
            for c in names:
                if not c:
                    continue
                seg = last_seg(c)
                c0 = strip_generics(c)
                if seg.startswith('shift_remove'):
                    shift += 1
                if seg in BANNED_SEGS and not c0.startswith('core::mem::') or any(c0 == x for x in BANNED_FULL):
                    bad.append((d, c0, n.get('l'), facts.loc(b, n)))
    seen = set()
    for d, c0, l, loc in bad:
        key = f'{d}|{last_seg(c0)}'
        if key in seen:
            continue
        seen.add(key)
        rep.bad(rid, key, f'`{d}` calls `{c0}`: an order-breaking storage operation (entries after the affected position are permuted); '
                f'the order-preserving counterpart is shift_remove / a stable sort', loc)
    if not bad:
        rep.ok(rid, f'{facts.config}|no-order-breaking-op', f'{n_bodies} bodies scanned, none calls swap_remove* / IndexMap::remove / sort_unstable* / swap_indices')
    rep.check(rid, f'{facts.config}|positive-control', shift >= floor_shift, f'shift_remove family found {shift} times by the same query',
              f'the query finds only {shift} shift_remove sites (expected >= {floor_shift}): removal no longer goes through shift_remove or the query is broken')


def encode_traces(facts):
    """The writer events of encode_array / encode_table (inline table) on containers of 0..3 elements, obtained by evaluating the two
    functions with the writer calls recorded (whatever loop shape they use): {('array', n, trailing_comma): [event..], ('table', n): [..]}.
    An event is (name, *modelled arguments)."""
    from .den import RecInterp, Evaluator
    out = {}
    keep = lambda args: tuple(a for a in args if not (isinstance(a, tuple) and a and a[0] in ('opaque', 'rec')))
    b = facts.body('toml_edit::encode::encode_array')
    pn = [p['name'] for p in b['params'] if p.get('k') == 'p_bind']
    for n in range(4):
        for tc in (False, True):
            it = RecInterp(Evaluator(facts), {'open_array', 'close_array', 'val_sep', 'prefix_encode', 'suffix_encode', 'encode_with_default'}, {'encode_value'})
            vals = tuple(('ctor', 'toml_edit::item::Item::Value', (('elem', i),)) for i in range(n))
            env = {pn[0]: ('struct', 'toml_edit::array::Array', {'values': vals, 'trailing_comma': tc, 'trailing': ('opaque',), 'decor': ('opaque',)}), '@assign': {}, '@calls': []}
            for e in pn[1:]:
                env[e] = ('opaque',)
            env[pn[-1]] = ('<default prefix>', '<default suffix>')
            it.run_body(b, env)
            out[('array', n, tc)] = [(nm,) + keep(args) for nm, args in it.calls]
    b = facts.body('toml_edit::encode::encode_table')
    pn = [p['name'] for p in b['params'] if p.get('k') == 'p_bind']
    for n in range(4):
        kids = tuple((('keys', i), ('elem', i)) for i in range(n))
        it = RecInterp(Evaluator(facts), {'open_inline_table', 'close_inline_table', 'val_sep', 'keyval_sep', 'prefix_encode', 'suffix_encode', 'encode_with_default'},
                       {'encode_value', 'encode_key_path_ref'}, stubs={'get_values': kids, 'preamble': ('opaque',), 'decor': ('opaque',)})
        env = {pn[0]: ('struct', 'toml_edit::inline_table::InlineTable', {}), '@assign': {}, '@calls': []}
        for e in pn[1:]:
            env[e] = ('opaque',)
        env[pn[-1]] = ('<default prefix>', '<default suffix>')
        it.run_body(b, env)
        out[('table', n)] = [(nm,) + keep(args) for nm, args in it.calls]
    # encode_formatted / encode_key: the explicit representation when there is one, else the default one; encoded against the source text when
    # there is one, else displayed; for a value between its decor
    SOME, NONE = 'core::option::Option::Some', 'core::option::Option::None'
    REPR = lambda t: ('struct', 'toml_edit::repr::Repr', {'raw_value': ('struct', 'toml_edit::raw_string::RawString', {
        '0': ('ctor', 'toml_edit::raw_string::RawStringInner::Explicit', (('struct', 'toml_edit::internal_string::InternalString', {'0': t}),))})})

    def text_of(x, depth=0):
        if isinstance(x, str):
            return x
        if depth < 8 and isinstance(x, tuple):
            for y in (x[2].values() if len(x) == 3 and isinstance(x[2], dict) else x):
                t = text_of(y, depth + 1) if isinstance(y, (tuple, str)) and y not in ('ctor', 'struct') and not (isinstance(y, str) and '::' in y) else None
                if t:
                    return t
        return None
    for fn in ('encode_formatted', 'encode_key'):
        b = facts.body('toml_edit::encode::' + fn)
        pn = [p['name'] for p in b['params'] if p.get('k') == 'p_bind']
        inp = [p for p in pn if p.split('#')[0] == 'input']
        if not inp:
            raise Unanalysable(f'{fn}: no `input` parameter')
        for has_repr in (True, False):
            for has_input in (True, False):
                it = RecInterp(Evaluator(facts), {'prefix_encode', 'suffix_encode', 'encode', 'write_str'}, stubs={'default_repr': REPR('<default repr>')})
                this = ('struct', 'toml_edit::repr::Formatted' if fn == 'encode_formatted' else 'toml_edit::key::Key',
                        {'value': 7, 'key': 'k', 'repr': ('ctor', SOME, (REPR('<explicit repr>'),)) if has_repr else ('ctor', NONE),
                         'decor': ('decor',), 'leaf_decor': ('leaf',), 'dotted_decor': ('dotted',)})
                env = {pn[0]: this, '@assign': {}}
                for e in pn[1:]:
                    env[e] = ('opaque',)
                env[inp[0]] = ('ctor', SOME, ('<input>',)) if has_input else ('ctor', NONE)
                if fn == 'encode_formatted':
                    env[pn[-1]] = ('<default prefix>', '<default suffix>')
                it.file = b.get('file')
                it.run_body(b, env)
                evs = []
                for nm, recv, args in it.trace:
                    if nm == 'encode':
                        evs.append((nm, text_of(recv)) + tuple(a for a in args if isinstance(a, str)))
                    elif nm == 'write_str':
                        evs.append((nm,) + tuple(a for a in args if isinstance(a, str)))
                    else:
                        evs.append((nm, recv) + tuple(a for a in args if isinstance(a, str)))
                out[(fn, has_repr, has_input)] = evs
    for fn in ('encode_key_path', 'encode_key_path_ref'):
        b = facts.body('toml_edit::encode::' + fn)
        pn = [p['name'] for p in b['params'] if p.get('k') == 'p_bind']
        for n in (1, 2, 3):
            keys = tuple(('struct', 'toml_edit::key::Key', {'leaf_decor': ('leaf', i), 'dotted_decor': ('dotted', i), 'key': ('k', i), 'repr': ('opaque',)}) for i in range(n))
            it = RecInterp(Evaluator(facts), {'prefix_encode', 'suffix_encode', 'key_sep'}, {'encode_key'})
            env = {pn[0]: keys, '@assign': {}, '@calls': []}
            for e in pn[1:]:
                env[e] = ('opaque',)
            env[pn[-1]] = ('<default prefix>', '<default suffix>')
            it.run_body(b, env)
            evs = []
            for nm, recv, args in it.trace:
                if nm == 'encode_key':
                    a0 = args[0] if args else None
                    evs.append((nm, a0[2].get('key') if isinstance(a0, tuple) and len(a0) == 3 and a0[0] == 'struct' else a0))
                elif nm == 'key_sep':
                    evs.append((nm,))
                else:
                    evs.append((nm, recv) + tuple(a for a in args if isinstance(a, str)))
            out[(fn, n)] = evs
    return out


def expected_repr_trace(fn, has_repr, has_input):
    text = '<explicit repr>' if has_repr else '<default repr>'
    core_ev = [('encode', text, '<input>')] if has_input else [('write_str', text)]
    if fn == 'encode_key':
        return core_ev
    return [('prefix_encode', ('decor',), '<default prefix>')] + core_ev + [('suffix_encode', ('decor',), '<default suffix>')]


def expected_encode_trace(kind, n, tc=False):
    if kind in ('encode_key_path', 'encode_key_path_ref'):
        # `a . b .c`: the decor of the whole path is the leaf decor of the last key; between two segments the earlier one's dotted suffix, the dot, the
        # later one's dotted prefix
        ev = []
        for i in range(n):
            if i == 0:
                ev.append(('prefix_encode', ('leaf', n - 1), '<default prefix>'))
            else:
                ev += [('key_sep',), ('prefix_encode', ('dotted', i), '')]
            ev.append(('encode_key', ('k', i)))
            ev.append(('suffix_encode', ('leaf', n - 1), '<default suffix>') if i == n - 1 else ('suffix_encode', ('dotted', i), ''))
        return ev
    """what toml_edit prints for a programmatically built container: `[e0, e1, e2]` / `{ k0 = e0, k1 = e1 }`"""
    if kind == 'array':
        ev = [('prefix_encode', '<default prefix>'), ('open_array',)]
        for i in range(n):
            if i:
                ev.append(('val_sep',))
            ev.append(('encode_value', ('elem', i), ('', '') if i == 0 else (' ', '')))
        if tc and n:
            ev.append(('val_sep',))
        return ev + [('encode_with_default', ''), ('close_array',), ('suffix_encode', '<default suffix>')]
    ev = [('prefix_encode', '<default prefix>'), ('open_inline_table',), ('encode_with_default', '')]
    for i in range(n):
        if i:
            ev.append(('val_sep',))
        ev += [('encode_key_path_ref', ('keys', i), (' ', ' ')), ('keyval_sep',), ('encode_value', ('elem', i), (' ', ' ') if i == n - 1 else (' ', ''))]
    return ev + [('close_inline_table',), ('suffix_encode', '<default suffix>')]


def array_separators(rep, R, facts):
    """encode_array: a separator for every element but the first; the trailing comma is printed exactly when
    trailing_comma() && !is_empty() (an emptied array must not print `[,]`)."""
    from .core import peel
    from .den import truth_table, Evaluator, Unanalysable
    # decided on the writer events of arrays / inline tables of 0..3 elements; the structural reading below is the fallback when the
    # functions cannot be evaluated
    b = facts.body('toml_edit::encode::encode_array')
    loc = facts.loc(b)
    try:
        tr = encode_traces(facts)
    except (Unanalysable, KeyError, IndexError, TypeError) as e:
        tr = None
        rep.notes.append(f'encode_array / encode_table could not be evaluated ({e}); their loops are read structurally.') if hasattr(rep, 'notes') else None
    if tr is not None:
        strip = lambda evs: [e for e in evs if e[0] != 'val_sep' or True]
        bad_plain = [n for n in range(4) if tr[('array', n, False)] != expected_encode_trace('array', n, False)]
        bad_tc = [n for n in range(4) if tr[('array', n, True)] != expected_encode_trace('array', n, True)]
        show = lambda k: ' '.join(e[0] + (str(list(e[1:])) if len(e) > 1 else '') for e in tr[k])
        rep.check(R, 'encode_array|separator-all-but-first', not bad_plain, 'writer events of arrays of 0..3 elements: open, e0, (sep, e_i)*, trailing decor, close',
                  'the element separator is not emitted for exactly the elements after the first' +
                  (f' (array of {bad_plain[0]}: {show(("array", bad_plain[0], False))})' if bad_plain else ''), loc)
        rep.check(R, 'encode_array|trailing-comma-flag', not bad_tc, 'with trailing_comma set: one more separator after the last element, none in an empty array',
                  'the trailing comma is not printed exactly when trailing_comma() && !is_empty()' +
                  (f' (array of {bad_tc[0]}: {show(("array", bad_tc[0], True))})' if bad_tc else ''), loc)
        tb = facts.body('toml_edit::encode::encode_table')
        bad_t = [n for n in range(4) if tr[('table', n)] != expected_encode_trace('table', n)]
        for fn in ('encode_formatted', 'encode_key'):
            bad_r = [(r_, i_) for r_ in (True, False) for i_ in (True, False) if tr[(fn, r_, i_)] != expected_repr_trace(fn, r_, i_)]
            rep.check(R, f'{fn}|repr-and-decor', not bad_r, 'explicit representation if any, else the default one; encoded against the source if any, else displayed' +
                      ('; between prefix and suffix decor' if fn == 'encode_formatted' else ''),
                      f'`{fn}` (explicit repr: {bad_r[0][0]}, source text: {bad_r[0][1]}) writes {tr[(fn,) + bad_r[0]]}' if bad_r else '', facts.loc(facts.body('toml_edit::encode::' + fn)))
        for fn in ('encode_key_path', 'encode_key_path_ref'):
            bad_k = [n for n in (1, 2, 3) if tr[(fn, n)] != expected_encode_trace(fn, n)]
            rep.check(R, f'{fn}|segments-and-dots', not bad_k, 'writer events of key paths of 1..3 segments: path prefix, key, (dotted suffix, dot, dotted prefix, key)*, path suffix',
                      f'`{fn}` does not write a dotted key as `prefix key (suffix . prefix key)* suffix`' + (f' (path of {bad_k[0]}: {show((fn, bad_k[0]))})' if bad_k else '') +
                      ': whitespace around the dots moves or is lost', facts.loc(facts.body('toml_edit::encode::' + fn)))
        rep.check(R, 'encode_table|pairs-and-separators', not bad_t, 'writer events of inline tables of 0..3 pairs: open, preamble, (sep?) key = value .., close',
                  'an inline table is not written as `{ k = v, k = v }`' + (f' (table of {bad_t[0]}: {show(("table", bad_t[0]))})' if bad_t else ''), facts.loc(tb))
        return
    ev = Evaluator(facts)
    sep_ifs = []
    for n in walk(b['body']):
        if n.get('k') == 'if':
            then_sep = any(x.get('k') == 'mcall' and x.get('name') == 'val_sep' for x in walk(n['then']))
            else_sep = 'else' in n and any(x.get('k') == 'mcall' and x.get('name') == 'val_sep' for x in walk(n['else']))
            if then_sep or else_sep:
                sep_ifs.append((n, then_sep, else_sep))
    first_ok = False
    trailing_ok = False
    trailing_detail = 'not found'
    for n, then_sep, else_sep in sep_ifs:
        c = peel(n['cond'])
        # element separator: condition compares the loop index with 0
        idx = [x for x in walk(c) if x.get('k') == 'path' and x.get('res') == 'Local' and x.get('t') == 'usize']
        if idx and not any(x.get('k') == 'mcall' for x in walk(c)):
            try:
                var = idx[0]['path']
                from .den import Interp
                it = Interp(ev)
                vals = {i: bool(it.run(c, {var: i})) for i in range(0, 4)}
                sep_at = {i: (then_sep and vals[i]) or (else_sep and not vals[i]) for i in vals}
                first_ok = sep_at == {0: False, 1: True, 2: True, 3: True}
            except Unanalysable:
                first_ok = False
        else:
            def atom(x):
                if x.get('k') == 'mcall' and x.get('name') in ('trailing_comma', 'is_empty'):
                    return x['name']
                return None
            try:
                names, table = truth_table(ev, c, atom)
                want = {}
                if names == ['is_empty', 'trailing_comma']:
                    for (ie, tc), v in table.items():
                        want[(ie, tc)] = tc and not ie
                    trailing_ok = then_sep and table == want
                    trailing_detail = f'atoms {names}, table {table}'
                else:
                    trailing_detail = f'condition reads {names}, expected trailing_comma() and is_empty()'
            except Unanalysable as e:
                trailing_detail = str(e)
    if not first_ok:
        # the peeled form: the first element is written on its own (no separator), every further element by a loop that writes the
        # separator unconditionally before the element
        nodes = list(walk(b['body']))
        pos = {id(n): i for i, n in enumerate(nodes)}
        is_enc = lambda x: x.get('k') in ('call', 'mcall') and any(c.endswith('encode_value') for c in __import__('verif.core', fromlist=['callee_all']).callee_all(x))
        is_sep = lambda x: x.get('k') == 'mcall' and x.get('name') == 'val_sep'
        firsts = [n for n in nodes if n.get('k') == 'if' and peel(n['cond']).get('k') == 'letexpr' and
                  any(x.get('k') == 'mcall' and x.get('name') == 'next' for x in walk(peel(n['cond'])['init'])) and
                  any(is_enc(x) for x in walk(n['then'])) and not any(is_sep(x) for x in walk(n['then'])) and 'else' not in n]
        loops = [n for n in nodes if n.get('k') == 'loop' and any(is_enc(x) for x in walk(n)) and any(is_sep(x) for x in walk(n))]
        if len(firsts) == 1 and len(loops) == 1 and pos[id(firsts[0])] < pos[id(loops[0])]:
            lp = loops[0]
            seps = [x for x in walk(lp) if is_sep(x)]
            encs = [x for x in walk(lp) if is_enc(x)]
            uncond = all(not any(isinstance(c, dict) for c in conditions_above(lp, x)) for x in seps + encs)
            order = len(seps) == 1 and len(encs) == 1 and pos[id(seps[0])] < pos[id(encs[0])]
            # nothing else writes an element
            others = [x for x in nodes if is_enc(x) and not any(x is y for y in walk(firsts[0])) and not any(x is y for y in walk(lp))]
            first_ok = uncond and order and not others
    rep.check(R, 'encode_array|separator-all-but-first', first_ok, 'val_sep for i != 0', 'the element separator is not emitted for exactly the elements after the first', loc)
    rep.check(R, 'encode_array|trailing-comma-flag', trailing_ok, 'trailing comma iff trailing_comma() && !is_empty()',
              f'the trailing comma is not printed exactly when trailing_comma() && !is_empty(): {trailing_detail}', loc)


def clippy_crossref(rep, rid):
    """Independent, type-resolved confirmation of the who-may-call rule with clippy's `disallowed_methods` (thorough tier).
    A disagreement between clippy and the rule library is reported as a checker error (analysis-incomplete), not as a property violation."""
    import os
    import re
    import subprocess
    import tempfile
    from .core import CACHE, repo_root
    R = rep.rule(rid, 'cross-reference: clippy::disallowed_methods (type-resolved) finds no call of the banned order-breaking methods, and does '
                 'find the control method (shift_remove), in toml_edit and toml with and without preserve_order', floor=2)
    banned = ['indexmap::map::IndexMap::swap_remove', 'indexmap::map::IndexMap::swap_remove_entry', 'indexmap::map::IndexMap::swap_remove_full',
              'indexmap::map::IndexMap::swap_remove_index', 'indexmap::map::IndexMap::swap_indices', 'indexmap::map::IndexMap::sort_unstable_keys',
              'indexmap::map::IndexMap::sort_unstable_by', 'indexmap::map::OccupiedEntry::swap_remove', 'indexmap::map::OccupiedEntry::swap_remove_entry',
              'std::vec::Vec::swap_remove', 'slice::sort_unstable', 'slice::sort_unstable_by', 'slice::sort_unstable_by_key']
    control = ['indexmap::map::IndexMap::shift_remove', 'indexmap::map::OccupiedEntry::shift_remove']
    conf = tempfile.mkdtemp(prefix='clippyconf.', dir='/tmp')
    try:
        with open(os.path.join(conf, 'clippy.toml'), 'w') as f:
            f.write('disallowed-methods = [\n' + ''.join(f'  {{ path = "{m}", reason = "{"control" if m in control else "banned"}" }},\n' for m in banned + control) + ']\n')
        for label, feats in (('default', []), ('preserve_order', ['--features', 'toml/preserve_order'])):
            env = dict(os.environ, CLIPPY_CONF_DIR=conf, CARGO_NET_OFFLINE='true', CARGO_TARGET_DIR=os.path.join(CACHE, 'target-clippy'))
            subprocess.run(['rm', '-rf'] + [os.path.join(CACHE, 'target-clippy', 'debug', '.fingerprint', d) for d in os.listdir(os.path.join(CACHE, 'target-clippy', 'debug', '.fingerprint'))
                                            if d.startswith(('toml-', 'toml_edit-'))] if os.path.isdir(os.path.join(CACHE, 'target-clippy', 'debug', '.fingerprint')) else ['true'])
            p = subprocess.run(['cargo', '+nightly', 'clippy', '--offline', '--no-deps', '-p', 'toml_edit', '-p', 'toml'] + feats +
                               ['--', '-A', 'clippy::all', '-W', 'clippy::disallowed_methods'], cwd=repo_root(), env=env, capture_output=True, text=True)
            text = p.stderr
            if p.returncode != 0 and 'error' in text and 'could not compile' in text:
                rep.incomplete(R, f'{label}|clippy-run', 'clippy did not run: ' + text[-400:])
                continue
            hits = re.findall(r'use of a disallowed method `([^`]+)`[\s\S]*?--> ([^\n]+)', text)
            bad = [(m, w) for m, w in hits if any(m.endswith(b.split('::', 1)[-1]) or m == b for b in banned) and not any(c.split('::')[-1] == m.split('::')[-1] for c in control)]
            ctl = [(m, w) for m, w in hits if m.split('::')[-1].startswith('shift_remove')]
            rep.check(R, f'{label}|no-banned-call', not bad, f'{len(hits)} lint hits, none banned', f'clippy reports banned calls the rule library must also report: {bad[:3]}', '')
            if not ctl:
                rep.incomplete(R, f'{label}|control', 'clippy did not report the control method shift_remove: the cross-reference is not effective')
            else:
                rep.ok(R, f'{label}|control', f'control found {len(ctl)} times')
    finally:
        subprocess.run(['rm', '-rf', conf])


def path_to(root, target):
    """[(ancestor node, key under which the next step hangs)] from root down to target (identity), or None"""
    if root is target:
        return []
    if isinstance(root, dict):
        for k, v in root.items():
            if isinstance(v, dict):
                r = path_to(v, target)
                if r is not None:
                    return [(root, k)] + r
            elif isinstance(v, list):
                for x in v:
                    if isinstance(x, dict):
                        r = path_to(x, target)
                        if r is not None:
                            return [(root, k)] + r
    return None


def conditions_above(root, target):
    """condition expressions (if conditions of taken then-branches, match-arm guards) that control `target` inside `root`"""
    p = path_to(root, target)
    out = []
    if p is None:
        return out
    for node, key in p:
        if node.get('k') == 'if' and key == 'then':
            out.append(node['cond'])
        if 'guard' in node and key == 'body' and node.get('guard') is not None:
            out.append(node['guard'])
    return out


SORT_FNS = ('toml_edit::table::Table::sort_values', 'toml_edit::table::Table::sort_values_by_internal',
            'toml_edit::inline_table::InlineTable::sort_values', 'toml_edit::inline_table::InlineTable::sort_values_by_internal')


def sort_recursion(rep, R, facts):
    """the four sorting functions: own entries sorted in place, recursion only into dotted children, through the same function
    with the same comparison"""
    from .core import walk, peel, last_seg, strip_generics, callee_all
    for d in SORT_FNS:
        if not facts.has_body(d):
            rep.incomplete(R, d, f'`{d}` not found')
            continue
        b = facts.body(d)
        own = [n for n in walk(b['body']) if n.get('k') == 'mcall' and n.get('name') in ('sort_keys', 'sort_by', 'sort_by_key', 'sort_by_cached_key')
               and peel(n['recv']).get('k') == 'field' and peel(n['recv']).get('name') == 'items']
        rep.check(R, f'{d}|sorts-own-items', len(own) == 1, f'self.items.{own[0]["name"] if own else "?"}', f'`{d}` does not sort its own `items` exactly once', facts.loc(b))
        rec = [n for n in walk(b['body']) if n.get('k') == 'mcall' and (n.get('name') or '').startswith('sort_values')]
        problems = []
        for n in rec:
            tgt = [strip_generics(c) for c in callee_all(n)]
            if strip_generics(d) not in tgt:
                problems.append(f'line {n.get("l")}: recursion goes to `{last_seg(tgt[0]) if tgt else n.get("name")}` instead of `{last_seg(d)}` (a different order is applied to dotted children)')
            conds = conditions_above(b['body'], n)
            if not any(x.get('k') == 'mcall' and x.get('name') == 'is_dotted' for c in conds for x in walk(c)):
                problems.append(f'line {n.get("l")}: recursion into a child is not guarded by is_dotted() (sub-tables with their own header would be re-ordered)')
            if d.endswith('_internal'):
                pn = [p.get('name') for p in b.get('params', []) if p.get('k') == 'p_bind'][1:]
                a0 = peel(n['args'][0]) if n.get('args') else {}
                if not (a0.get('k') == 'path' and a0.get('path') in pn):
                    problems.append(f'line {n.get("l")}: the comparison function is not passed on to the recursion')
        if d.endswith('_internal') and len(own) == 1 and own[0].get('args'):
            _sort_adapter(rep, R, facts, d, b, own[0])
        rep.check(R, f'{d}|recursion', len(rec) == 1 and not problems, 'one self-recursive call, guarded by is_dotted()' + (', comparison passed on' if d.endswith('_internal') else ''),
                  f'`{d}`: ' + ('; '.join(problems) if problems else f'{len(rec)} recursive sort calls instead of 1'), facts.loc(b))


def _sort_adapter(rep, R, facts, d, b, call):
    """the closure handed to `items.sort_by` stands between the storage's (key, item) pairs and the caller's comparison: evaluated on two symbolic
    entries of every kind (a value, a table, the placeholder), it must hand the caller's comparison the first entry's key and value first and the
    second entry's second, and what it answers without asking must be antisymmetric"""
    from .core import walk, peel
    from .den import RecInterp, Evaluator, Unanalysable, EvalPanic
    arg = peel(call['args'][0])
    if arg.get('k') == 'path' and arg.get('res') == 'Local':
        origins = local_origins(b['body'])
        arg = peel(origins.get(arg['path']) or {})
    if arg.get('k') != 'closure':
        pn = [p.get('name') for p in b.get('params', []) if p.get('k') == 'p_bind'][1:]
        a0 = peel(call['args'][0])
        direct = a0.get('k') == 'path' and a0.get('path') in pn
        rep.check(R, f'{d}|adapter', direct, 'the caller\'s comparison is handed to sort_by as it is', f'`{d}`: what is handed to sort_by is neither the caller\'s comparison nor a closure around it', facts.loc(b))
        return
    cmp_names = [p.get('name') for p in b.get('params', []) if p.get('k') == 'p_bind'][1:]
    I = 'toml_edit::item::Item::'
    kinds = {'value': lambda t: ('ctor', I + 'Value', (('sym', 'v' + t),)), 'table': lambda t: ('ctor', I + 'Table', (('sym', 'v' + t),)), 'none': lambda t: ('ctor', I + 'None')}

    def mentions(v, s):
        if v == ('sym', s):
            return True
        return isinstance(v, (tuple, list)) and any(mentions(x, s) for x in v)
    bad = []
    answers = {}
    n_cmp = 0
    try:
        for ka, fa in kinds.items():
            for kb, fb in kinds.items():
                it = RecInterp(Evaluator(facts), set())
                env = {n: ('recfn', 'compare') for n in cmp_names}
                clo = it.val(arg, env)
                try:
                    r = it.apply(clo, [('sym', 'k1'), fa('1'), ('sym', 'k2'), fb('2')])
                except EvalPanic as ex:
                    bad.append(f'panics for a {ka} and a {kb} entry ({ex})')
                    continue
                tr = [t for t in it.trace if t[0] == 'compare']
                if tr:
                    n_cmp += 1
                    got = [tr[0][1]] + list(tr[0][2])
                    # (the placeholder carries nothing to tell its two occurrences apart: only the other side is judged)
                    ok = len(tr) == 1 and len(got) == 4 and got[0] == ('sym', 'k1') and got[2] == ('sym', 'k2') and (ka == 'none' or mentions(got[1], 'v1')) and not mentions(got[1], 'v2') \
                        and (kb == 'none' or mentions(got[3], 'v2')) and not mentions(got[3], 'v1')
                    if not ok:
                        bad.append(f'for a {ka} and a {kb} entry the caller\'s comparison receives ({", ".join(_show_sym(x) for x in got)}) instead of (key1, value1, key2, value2)')
                    answers[(ka, kb)] = 'asks'
                else:
                    answers[(ka, kb)] = r[1].rsplit('::', 1)[-1] if isinstance(r, tuple) and r and r[0] == 'ctor' else repr(r)
    except Unanalysable as ex:
        rep.incomplete(R, f'{d}|adapter', f'cannot evaluate the comparison adapter of `{d}`: {ex}', facts.loc(b))
        return
    flip = {'Less': 'Greater', 'Greater': 'Less', 'Equal': 'Equal', 'asks': 'asks'}
    for (ka, kb), r in answers.items():
        if (kb, ka) in answers and flip.get(r) != answers[(kb, ka)]:
            bad.append(f'a {ka} entry against a {kb} entry is {r}, but a {kb} entry against a {ka} entry is {answers[(kb, ka)]}')
    # a total order: an entry the caller's comparison ranks (it is asked about two of its kind) cannot be Equal to an entry of a kind that is never ranked —
    # Equal is transitive, so two ranked entries on either side of such an entry would have to be Equal to each other
    for (ka, kb), r in answers.items():
        if r == 'Equal' and ka != kb and (answers.get((ka, ka)) == 'asks') != (answers.get((kb, kb)) == 'asks'):
            bad.append(f'a {ka} entry and a {kb} entry compare Equal although only one of the two kinds is ranked by the caller\'s comparison: the answers are no total order and a stable sort '
                       f'leaves ranked entries on either side of such an entry unsorted')
    if not n_cmp:
        bad.append('the caller\'s comparison is never asked')
    rep.check(R, f'{d}|adapter', not bad, f'{n_cmp} of {len(answers)} entry-kind pairs ask the caller\'s comparison with (key1, value1, key2, value2); the rest is antisymmetric',
              f'`{d}`: the comparison adapter ' + '; '.join(bad[:2]) + ': the entries come out in another order than the same sort of a plain list', facts.loc(b))


def _show_sym(v):
    if isinstance(v, tuple) and len(v) == 2 and v[0] == 'sym':
        return {'k1': 'key1', 'k2': 'key2', 'v1': 'value1', 'v2': 'value2'}.get(v[1], v[1])
    if isinstance(v, tuple):
        for x in v:
            r = _show_sym(x) if isinstance(x, (tuple, list)) else None
            if r and r != '?':
                return r
    if isinstance(v, list):
        for x in v:
            r = _show_sym(x)
            if r != '?':
                return r
    return '?'


def pattern_bindings(pat, expr, out):
    """bind the locals of a pattern to the sub-expressions they are matched against: tuples position-wise, constructor
    patterns (Some(x), Ok(x)) look through to the same expression"""
    from .core import peel
    k = pat.get('k')
    if k == 'p_bind':
        out[pat['name']] = expr
        if 'sub' in pat:
            pattern_bindings(pat['sub'], expr, out)
    elif k == 'p_tuple':
        e = peel(expr)
        if e.get('k') == 'tup' and len(e['elems']) == len(pat.get('pats', [])):
            for pp, ee in zip(pat['pats'], e['elems']):
                pattern_bindings(pp, ee, out)
    elif k == 'p_tuplestruct' and len(pat.get('pats', [])) == 1:
        pattern_bindings(pat['pats'][0], expr, out)
    elif k in ('p_ref', 'p_deref') and 'pat' in pat:
        pattern_bindings(pat['pat'], expr, out)
    elif k == 'p_struct':
        # `let S { a, b: x } = s;` binds a to s.a and x to s.b; a struct literal on the other side is matched field by field
        e = peel(expr)
        lit = {f['name']: f['e'] for f in e.get('fields', [])} if e.get('k') == 'struct' else None
        for f in pat.get('fields', []):
            sub = lit[f['name']] if lit is not None and f['name'] in lit else {'k': 'field', 'name': f['name'], 'base': expr, 'l': pat.get('l')}
            pattern_bindings(f['pat'], sub, out)


def local_origins(body):
    """local name -> expression it is bound from (let / if-let / while-let with tuple and Some(..) patterns)"""
    from .core import walk
    out = {}
    for n in walk(body):
        if n.get('k') in ('let', 'letexpr') and 'init' in n and 'pat' in n:
            pattern_bindings(n['pat'], n['init'], out)
        if n.get('k') == 'match' and 'TryDesugar' not in (n.get('src') or '') and 'ForLoopDesugar' not in (n.get('src') or ''):
            for arm in n.get('arms', []):
                pattern_bindings(arm['pat'], n['scrut'], out)
        # a.zip(b).map(|(x, y)| ..) / opt.map(|x| ..) / opt.and_then(|x| ..): the closure parameter stands for the receiver's payload
        if n.get('k') == 'mcall' and n.get('name') in ('map', 'and_then', 'map_or', 'is_some_and', 'filter') and n.get('args'):
            from .core import peel
            clo = peel(n['args'][-1])
            if clo.get('k') == 'closure' and len(clo.get('params', [])) == 1:
                recv = peel(n['recv'])
                par = clo['params'][0]
                if recv.get('k') == 'mcall' and recv.get('name') == 'zip' and par.get('k') == 'p_tuple' and len(par.get('pats', [])) == 2 and recv.get('args'):
                    pattern_bindings(par['pats'][0], recv['recv'], out)
                    pattern_bindings(par['pats'][1], recv['args'][0], out)
                else:
                    pattern_bindings(par, n['recv'], out)
    return out


def method_chain(e, origins, depth=0):
    """(root local, [method / field names from the root outwards]) of an expression, following bound locals"""
    from .core import peel
    e = peel(e)
    k = e.get('k')
    if depth > 12:
        return None, []
    if k == 'mcall':
        r, ms = method_chain(e['recv'], origins, depth + 1)
        return r, ms + [e.get('name')]
    if k in ('addrof', 'unary', 'deref'):
        return method_chain(e.get('a') or e.get('e') or {}, origins, depth + 1)
    if k == 'field':
        r, ms = method_chain(e['base'], origins, depth + 1)
        return r, ms + ['.' + str(e.get('name'))]
    if k == 'path' and e.get('res') == 'Local':
        nm = e.get('path')
        if nm in origins:
            return method_chain(origins[nm], origins, depth + 1)
        return nm, []
    return None, []


def norm_expr(n):
    """structure of an expression without positions / types, with locals by their base name: two occurrences of the same condition compare equal"""
    if isinstance(n, list):
        return '[' + ','.join(norm_expr(x) for x in n) + ']'
    if not isinstance(n, dict):
        return repr(n)
    from .core import peel
    n = peel(n)
    k = n.get('k')
    if k == 'path':
        p = n.get('path') or ''
        return 'L:' + p.split('#')[0] if n.get('res') == 'Local' else 'P:' + p
    keys = [x for x in sorted(n) if x not in ('l', 't', 'x', 'm', 'adj', 'gargs', 'resolved', 'callee', 'res')]
    return '{' + ','.join(f'{x}={norm_expr(n[x])}' for x in keys) + '}'


def control_conditions(root, target):
    """[(normalised condition, polarity)] of the if / else branches and guarded match arms that enclose `target` inside `root`"""
    p = path_to(root, target)
    out = []
    if p is None:
        return None
    last_match = None
    for node, key in p:
        if node.get('k') == 'if' and key in ('then', 'else'):
            c = node['cond']
            out.append((norm_expr(c.get('init') if c.get('k') == 'letexpr' else c) + ('|' + norm_expr(c.get('pat')) if c.get('k') == 'letexpr' else ''), key == 'then'))
        if node.get('k') == 'match' and key == 'arms' and not any(x in (node.get('src') or '') for x in ('TryDesugar', 'ForLoopDesugar', 'AwaitDesugar')):
            last_match = node
        if 'pat' in node and 'body' in node and key == 'body' and node.get('k') is None and last_match is not None and any(a is node for a in last_match.get('arms', [])):
            # the arm of a match over a selector (`match kind { Kind::A => .., Kind::B => .. }`)
            out.append((norm_expr(last_match['scrut']) + '|' + norm_expr(node['pat']), True))
        if 'guard' in node and key == 'body' and node.get('guard') is not None:
            out.append((norm_expr(node['guard']), True))
    return out


def position_carry(facts):
    """Transfer function of the closure that collects the tables to print in `Display for DocumentMut`, evaluated for a table with and without a
    recorded position: returns (ok, detail).  Expected: the carried position becomes the table's own position when it has one and stays otherwise,
    and the table is filed under that (updated) position — so a table without position prints right after the table visited before it."""
    from .core import walk, peel
    from .den import RecInterp, Evaluator, Unanalysable, Ret
    d = facts.method('core::fmt::Display', 'toml_edit::document::DocumentMut', 'fmt')
    b = facts.body(d)
    clos = [n for n in walk(b['body']) if n.get('k') == 'closure' and len(n.get('params', [])) == 3 and
            any(x.get('k') == 'mcall' and x.get('name') == 'push' for x in walk(n['body']))]
    if len(clos) != 1:
        return False, f'{len(clos)} collecting closures found (expected the one passed to visit_nested_tables)', b
    clo = clos[0]
    bound = {x['name'] for p in clo['params'] for x in walk(p) if x.get('k') == 'p_bind'} | {x['name'] for x in walk(clo['body']) if x.get('k') == 'p_bind'}
    free = {}
    for x in walk(clo['body']):
        if x.get('k') == 'path' and x.get('res') == 'Local' and x.get('path') not in bound:
            free[x['path']] = x.get('t') or ''
    ints = [n for n, t in free.items() if t.strip() in ('usize', 'isize', 'u32', 'u64', 'i32', 'i64')]
    if len(ints) != 1:
        return False, f'carried position local not identified ({sorted(free)})', b
    carried = ints[0]
    SOME, NONE = 'core::option::Option::Some', 'core::option::Option::None'
    rows = []
    try:
        for last in (0, 5):
            for pos in (None, 3, 9):
                it = RecInterp(Evaluator(facts), {'push', 'clone'})
                env = {n: ('opaque',) for n in free}
                env[carried] = last
                env['@assign'] = {}
                table = ('struct', 'Table', {'doc_position': ('ctor', NONE) if pos is None else ('ctor', SOME, (pos,)), 'position': ('ctor', NONE) if pos is None else ('ctor', SOME, (pos,))})
                args = [table, ('path',), False]
                for p_, a in zip(clo['params'], args):
                    it.bind(p_, a, env)
                try:
                    it.val(clo['body'], env)
                except Ret:
                    pass
                pushed = [a for nm, a in it.calls if nm == 'push']
                key = None
                if len(pushed) == 1 and pushed[0]:
                    elem = pushed[0][0]
                    # the key the collected entries are sorted by: the sort closure applied to the pushed entry (a tuple, a struct, ..)
                    sorts = [n for n in walk(b['body']) if n.get('k') == 'mcall' and n.get('name') in ('sort_by_key', 'sort_by_cached_key') and n.get('args')
                             and peel(n['args'][0]).get('k') == 'closure']
                    if len(sorts) == 1:
                        try:
                            key = it.apply(('closure', peel(sorts[0]['args'][0]), {}), [elem])
                        except Unanalysable:
                            key = None
                    if key is None and isinstance(elem, tuple) and elem and elem[0] not in ('struct', 'ctor', 'opaque', 'rec'):
                        key = elem[0]
                want = last if pos is None else pos
                rows.append(((last, pos), (env.get(carried), key), (want, want)))
    except Unanalysable as e:
        return False, f'cannot evaluate the collecting closure: {e}', b
    bad = [r for r in rows if r[1] != r[2]]
    if bad:
        (last, pos), got, want = bad[0]
        return False, (f'with carried position {last} and a table whose position is {pos}, the carried position becomes {got[0]} and the table is filed under {got[1]}; '
                       f'expected {want[0]} / {want[1]}'), b
    return True, 'carried = own position if any, else unchanged; the table is filed under the carried position', b


# functions whose behaviour on a family of inputs is tabulated by the structural interpreter with checked arithmetic, checked casts, slice bounds
# and unwrap / expect modelled (a panic or a lossy cast in any evaluation is a violation of the named rule): for these, a *new* index / arithmetic /
# cast site that appears with a refactoring is judged by the tabulation, not by the reviewed multiplicity
TABULATED = {
    '<toml_datetime::datetime::Datetime as core::str::traits::FromStr>::from_str': 'C12/R4 (every well-formed date-time shape with all single-character edits, fractions of 1..=14 digits)',
    'toml_datetime::datetime::digit': 'C12/R4',
    'toml_edit::error::translate_position': 'C15/R4 (every text of up to four characters over a multi-byte alphabet, every index)',
}



def _parse_state(facts, it, T):
    """a model parser state: whatever ParseState::new() builds, with model tables in the places the rules look at"""
    from .den import Unanalysable, VecObj
    d = 'toml_edit::parser::state::ParseState::new'
    if not facts.has_body(d):
        raise Unanalysable('ParseState::new not found')
    st = it.apply_fn(facts.body(d), [])
    if not (isinstance(st, tuple) and len(st) == 3 and st[0] == 'struct' and isinstance(st[2], dict)):
        raise Unanalysable('ParseState::new does not evaluate to a struct')
    for f in ('root', 'current_table', 'current_table_path', 'current_table_position'):
        if f not in st[2]:
            raise Unanalysable(f'ParseState has no field `{f}`')
    st[2]['root'] = T(False, False, 'root')
    st[2]['current_table'] = T(True, True, 'fresh')
    st[2]['current_table_path'] = VecObj([])
    st[2]['current_table_position'] = 4
    return st


def _attached_as(facts, st):
    """how finalize_table attaches the current table of `st`: 'table' (inserted under its name), 'array' (pushed to an array of tables), None"""
    from .den import RecInterp, Evaluator, EvalPanic, Unanalysable, VecObj
    I = 'toml_edit::item::Item::'
    d = 'toml_edit::parser::state::ParseState::finalize_table'
    if not facts.has_body(d):
        return None
    aot = ('ctor', I + 'ArrayOfTables', (('struct', 'toml_edit::array_of_tables::ArrayOfTables', {'values': VecObj([]), 'span': ('ctor', 'core::option::Option::None')}),))
    it = RecInterp(Evaluator(facts), {'insert'}, {'descend_path', 'duplicate_key'}, stubs={'entry_format': ('ctor', 'toml_edit::table::Entry::Vacant', (('vacant',),)), 'or_insert': aot})
    it.model_mem = True
    try:
        it.apply_fn(facts.body(d), [st])
    except EvalPanic:
        return None
    except Unanalysable as ex:
        return f'unanalysable: finalize_table: {ex}'
    if aot[2][0][2]['values'].items:
        return 'array'
    if any(nm == 'insert' for nm, _ in it.calls):
        return 'table'
    return None


def header_start_model(facts):
    """ParseState::start_table / start_array_table evaluated on a model parser state, once with nothing under the header's name and once with a
    header-implied table there (which start_table adopts).  Yields (fn, case, outcome) where outcome is None when the function refuses, an
    'unanalysable: ..' / 'panic: ..' string, or {'span', 'implicit', 'dotted', 'decor', 'position', 'path', 'adopted', 'is_array'} describing the current
    table afterwards ('is_array': how finalize_table would attach it)."""
    from .den import RecInterp, Evaluator, EvalPanic, Unanalysable, VecObj
    I = 'toml_edit::item::Item::'
    SOME, NONE = 'core::option::Option::Some', 'core::option::Option::None'

    def T(implicit, dotted, tag):
        return ('struct', 'toml_edit::table::Table', {'implicit': implicit, 'dotted': dotted, 'items': (), 'span': ('ctor', NONE), 'decor': ('old-decor',), 'doc_position': ('ctor', NONE), 'tag': tag})
    for fn in ('start_table', 'start_array_table'):
        d = 'toml_edit::parser::state::ParseState::' + fn
        if not facts.has_body(d):
            yield fn, 'nothing there', 'unanalysable: not found'
            continue
        b = facts.body(d)
        for case in ('nothing there', 'a header-implied table there', 'an explicit table there', 'an array of tables there', 'a value there'):
            under = {'nothing there': None, 'a header-implied table there': ('ctor', I + 'Table', (T(True, False, 'adopted'),)), 'an explicit table there': ('ctor', I + 'Table', (T(False, False, 'other'),)),
                     'an array of tables there': ('ctor', I + 'ArrayOfTables', (('struct', 'toml_edit::array_of_tables::ArrayOfTables', {'values': VecObj([('ctor', I + 'Table', (T(False, False, 'first'),))])}),)),
                     'a value there': ('ctor', I + 'Value', (('opaque',),))}[case]
            existing = ('ctor', NONE) if under is None else ('ctor', SOME, (under,))
            aot = under if under is not None else ('ctor', I + 'ArrayOfTables', (('struct', 'toml_edit::array_of_tables::ArrayOfTables', {'values': VecObj([])}),))
            it = RecInterp(Evaluator(facts), set(), {'descend_path', 'duplicate_key'}, stubs={'remove': existing, 'or_insert': aot})
            path = VecObj([('struct', 'toml_edit::key::Key', {'key': 'a'}), ('struct', 'toml_edit::key::Key', {'key': 'b'})])
            try:
                st = _parse_state(facts, it, T)
                r = it.apply_fn(b, [st, path, ('new-decor',), ('range', 10, 15)])
            except EvalPanic as ex:
                yield fn, case, f'panic: {ex}'
                continue
            except Unanalysable as ex:
                yield fn, case, f'unanalysable: {ex}'
                continue
            if not (isinstance(r, tuple) and r[:2] == ('ctor', 'core::result::Result::Ok')):
                yield fn, case, None
                continue
            ct = st[2]['current_table']
            f = ct[2] if isinstance(ct, tuple) and len(ct) == 3 else {}
            unopt = lambda v: (v[2][0] if len(v) > 2 else None) if isinstance(v, tuple) and v[:1] == ('ctor',) and v[1].startswith('core::option::Option::') else v
            out = {'span': unopt(f.get('span')), 'implicit': f.get('implicit'), 'dotted': f.get('dotted'), 'decor': f.get('decor'), 'position': unopt(f.get('doc_position')),
                   'adopted': f.get('tag') == 'adopted', 'path': [k[2].get('key') for k in getattr(st[2]['current_table_path'], 'items', [])], 'counter': st[2]['current_table_position']}
            att = _attached_as(facts, st)                                   # (this runs finalize_table on the state: last)
            if isinstance(att, str) and att.startswith('unanalysable'):
                yield fn, case, att
                continue
            out['is_array'] = att == 'array'
            yield fn, case, out


def finalize_model(facts):
    """ParseState::finalize_table evaluated on a model parser state: the table collected for the current header is attached to the tree.
    Yields (case, outcome); outcome is 'unanalysable: ..' / 'panic: ..', or a dict {'ok': bool, ...facts about where the table went}."""
    from .den import RecInterp, Evaluator, EvalPanic, Unanalysable, VecObj
    I = 'toml_edit::item::Item::'
    E = 'toml_edit::table::Entry::'
    SOME, NONE = 'core::option::Option::Some', 'core::option::Option::None'
    d = 'toml_edit::parser::state::ParseState::finalize_table'
    if not facts.has_body(d):
        yield 'finalize_table', 'unanalysable: not found'
        return
    b = facts.body(d)

    def T(implicit, tag, span=None):
        return ('struct', 'toml_edit::table::Table', {'implicit': implicit, 'dotted': False, 'items': (), 'span': ('ctor', NONE) if span is None else ('ctor', SOME, (span,)),
                                                       'decor': ('d',), 'doc_position': ('ctor', NONE), 'tag': tag})
    K = lambda n: ('struct', 'toml_edit::key::Key', {'key': n})
    tag_of = lambda item: item[2][0][2].get('tag') if isinstance(item, tuple) and len(item) == 3 and item[1] == I + 'Table' else None

    def run(path, is_array, entry=None, existing=None):
        # the state finalize_table finds: what the header function left behind (whatever way it records that the section is a [[table]] element)
        it0 = RecInterp(Evaluator(facts), set(), {'descend_path'}, stubs={'remove': ('ctor', NONE), 'or_insert': ('ctor', I + 'ArrayOfTables', (('struct', 'toml_edit::array_of_tables::ArrayOfTables', {'values': VecObj([])}),))})
        st = _parse_state(facts, it0, lambda imp, dot, tag: T(imp, tag))
        if path:
            hd = 'toml_edit::parser::state::ParseState::' + ('start_array_table' if is_array else 'start_table')
            if not facts.has_body(hd):
                raise Unanalysable(f'{hd} not found')
            it0.apply_fn(facts.body(hd), [st, VecObj(path), ('d',), ('range', 10, 19)])
        cur = T(False, 'current', ('range', 10, 19))
        st[2]['current_table'][2].clear()
        st[2]['current_table'][2].update(cur[2])
        stubs = {}
        if entry is not None:
            stubs['entry_format'] = entry
        if existing is not None:
            stubs['into_mut'] = existing
            stubs['or_insert'] = existing
        it = RecInterp(Evaluator(facts), {'insert'}, {'descend_path', 'duplicate_key'}, stubs=stubs)
        it.model_mem = True
        r = it.apply_fn(b, [st])
        ok = isinstance(r, tuple) and r[:2] == ('ctor', 'core::result::Result::Ok')
        return ok, st, it
    cases = []
    cases.append(('the root section', lambda: run([], False)))
    cases.append(('[a.b] with nothing under the name', lambda: run([K('a'), K('b')], False, entry=('ctor', E + 'Vacant', (('vacant',),)))))
    for name, ex in (('a header-implied table', ('ctor', I + 'Table', (T(True, 'placeholder'),))), ('an explicit table', ('ctor', I + 'Table', (T(False, 'other'),))),
                     ('a value', ('ctor', I + 'Value', (('opaque',),)))):
        cases.append((f'[a.b] with {name} under the name', (lambda ex=ex: run([K('a'), K('b')], False, entry=('ctor', E + 'Occupied', (('occupied',),)), existing=ex)), ex))
    aot = ('ctor', I + 'ArrayOfTables', (('struct', 'toml_edit::array_of_tables::ArrayOfTables', {'values': VecObj([('ctor', I + 'Table', (T(False, 'first', ('range', 1, 5)),))]), 'span': ('ctor', NONE)}),))
    cases.append(('[[a.b]] with an array of tables under the name', (lambda: run([K('a'), K('b')], True, existing=aot)), aot))
    tbl = ('ctor', I + 'Table', (T(False, 'other'),))
    cases.append(('[[a.b]] with a table under the name', (lambda: run([K('a'), K('b')], True, existing=tbl)), tbl))
    for c in cases:
        name, fn = c[0], c[1]
        ex = c[2] if len(c) > 2 else None
        try:
            ok, st, it = fn()
        except EvalPanic as e:
            yield name, f'panic: {e}'
            continue
        except Unanalysable as e:
            yield name, f'unanalysable: {e}'
            continue
        out = {'ok': ok, 'root': st[2]['root'][2].get('tag'), 'left_default': st[2]['current_table'][2].get('@default') is True or st[2]['current_table'][2].get('tag') != 'current',
               'inserted': [tag_of(a[0]) for nm, a in it.calls if nm == 'insert' and a], 'entry': tag_of(ex) if ex is not None else None}
        if ex is aot:
            arr = aot[2][0][2]
            out['elements'] = [tag_of(x) for x in arr['values'].items]
            out['span'] = arr['span'][2][0] if isinstance(arr['span'], tuple) and len(arr['span']) > 2 else None
        yield name, out



def _shape_args(facts, params, by_type):
    """arguments for a function from the types of its parameters: a path, a key and an item may arrive as separate parameters, as a tuple or inside a struct of
    the workspace (`(path, (key, value))` today; `KeyVal { path, key, value }` would be the same call) — each model value goes where its type is asked for"""
    from .den import Unanalysable

    def of_type(t, depth=0):
        t = (t or '').replace('&mut ', '').replace('&', '').strip()
        if t in by_type:
            return by_type[t]
        adt = getattr(facts, 'adts', {}).get(t.split('<')[0])
        if adt and adt.get('kind') == 'struct' and depth < 3:
            return ('struct', t.split('<')[0], {str(f['name']): of_type(f.get('ty'), depth + 1) for f in adt['variants'][0].get('fields', [])})
        if t.startswith('(') and t.endswith(')'):
            parts, cur, dep = [], '', 0
            for ch in t[1:-1]:
                if ch in '(<[':
                    dep += 1
                if ch in ')>]':
                    dep -= 1
                if ch == ',' and dep == 0:
                    parts.append(cur)
                    cur = ''
                else:
                    cur += ch
            if cur.strip():
                parts.append(cur)
            return tuple(of_type(x, depth + 1) for x in parts)
        raise Unanalysable(f'a parameter of type `{t}`')

    def of_pat(p):
        if p.get('k') == 'p_tuple':
            return tuple(of_pat(x) for x in p['pats'])
        if p.get('k') in ('p_bind', 'p_wild') and p.get('t'):
            return of_type(p['t'])
        if p.get('k') == 'p_struct' and p.get('path'):
            return of_type(p['path'])
        raise Unanalysable(f'a parameter pattern `{p.get("k")}`')
    return [of_pat(p) for p in params]


def keyval_model(facts):
    """ParseState::on_keyval evaluated on a model parser state: a `key = value` / `p.key = value` line of the current section.
    Yields (case, outcome) with outcome 'unanalysable: ..' / 'panic: ..' or {'ok', 'inserted' (tags), 'span' (of the current table afterwards)}."""
    from .den import RecInterp, Evaluator, EvalPanic, Unanalysable, VecObj
    I = 'toml_edit::item::Item::'
    SOME, NONE = 'core::option::Option::Some', 'core::option::Option::None'
    EN = 'indexmap::map::core::entry::Entry::'
    d = 'toml_edit::parser::state::ParseState::on_keyval'
    if not facts.has_body(d):
        yield 'on_keyval', 'unanalysable: not found'
        return
    b = facts.body(d)

    def T(implicit, dotted, tag, span=None):
        return ('struct', 'toml_edit::table::Table', {'implicit': implicit, 'dotted': dotted, 'items': ('items-of-' + tag,), 'span': ('ctor', NONE) if span is None else ('ctor', SOME, (span,)),
                                                       'decor': ('d',), 'doc_position': ('ctor', NONE), 'tag': tag})

    def K(n):
        dec = lambda: ('struct', 'toml_edit::repr::Decor', {'prefix': ('ctor', NONE), 'suffix': ('ctor', NONE)})
        return ('struct', 'toml_edit::key::Key', {'key': n, 'leaf_decor': dec(), 'dotted_decor': dec(), 'repr': ('ctor', NONE)})
    for npath, label in ((0, 'key = value'), (1, 'p.key = value')):
        for child, clabel in (((True, True), 'p is a dotted-key table'), ((True, False), 'p is a header-implied table')) if npath else ((None, ''),):
            for occ in (False, True):
                case = label + (', ' + clabel if clabel else '') + (', key already there' if occ else ', key not there yet')
                entry = ('ctor', EN + ('Occupied' if occ else 'Vacant'), (('entry',),))
                stubs = {'entry': entry, 'key': K('dup')}
                if child is not None:
                    stubs['or_insert_with'] = ('ctor', I + 'Table', (T(child[0], child[1], 'p'),))
                from .places import PlaceInterp
                it = PlaceInterp(Evaluator(facts), {'insert', 'set_prefix'}, set(), stubs=stubs)          # (writes through `&mut self.current_table.span` and the like are followed)
                it.model_mem = True
                value = ('ctor', I + 'Table', (T(False, False, 'value', ('range', 30, 34)),))     # any item with a span of its own
                try:
                    st = _parse_state(facts, it, lambda imp, dot, tag: T(imp, dot, tag))
                    st[2]['current_table'] = T(False, False, 'current', ('range', 10, 19))
                    st[2]['current_table_path'] = VecObj([K('t')])
                    r = it.apply_fn(b, [st] + _shape_args(facts, b['params'][1:], {'alloc::vec::Vec<toml_edit::key::Key>': VecObj([K('p')][:npath]), 'toml_edit::key::Key': K('k'),
                                                                                   'toml_edit::item::Item': value}))
                except EvalPanic as e:
                    yield case, f'panic: {e}'
                    continue
                except Unanalysable as e:
                    yield case, f'unanalysable: {e}'
                    continue
                ok = isinstance(r, tuple) and r[:2] == ('ctor', 'core::result::Result::Ok')
                ins = [a[0][2][0][2].get('tag') if isinstance(a[0], tuple) and len(a[0]) == 3 and a[0][1] == I + 'Table' else '?' for nm, a in it.calls if nm == 'insert' and a]
                sp = st[2]['current_table'][2].get('span')
                yield case, {'ok': ok, 'inserted': ins, 'span': sp[2][0] if isinstance(sp, tuple) and len(sp) > 2 else None, 'npath': npath, 'occ': occ, 'child': child}



def visit_table_model(rep, R, facts):
    """encode::visit_table evaluated with the writes recorded, for a table that is explicit / implicit, holds nothing / a value / dotted-key values only / a
    sub-table only, at the root / under a path, as a `[table]` / a `[[table]]` element: a header is written exactly when the table is not the root and is an
    array element, or explicit, or has rows of its own; every row of get_values() is written after it — rows are never written without their header"""
    from .den import RecInterp, Evaluator, EvalPanic, Unanalysable
    I, V = 'toml_edit::item::Item::', 'toml_edit::value::Value::'
    d = 'toml_edit::encode::visit_table'
    if not facts.has_body(d):
        rep.incomplete(R, 'visit_table', f'`{d}` not found')
        return
    b = facts.body(d)
    NONE_ = ('ctor', 'core::option::Option::None')
    key = lambda n: ('struct', 'toml_edit::key::Key', {'key': n, 'repr': ('opaque',), 'leaf_decor': ('opaque',), 'dotted_decor': ('opaque',)})
    scal = lambda n: ('ctor', I + 'Value', (('ctor', V + 'Integer', (('elem', n),)),))
    tab = lambda dotted, implicit, kids: ('struct', 'toml_edit::table::Table', {'items': kids, 'dotted': dotted, 'implicit': implicit, 'doc_position': ('opaque',), 'span': ('opaque',),
                                                                                  'decor': ('struct', 'toml_edit::repr::Decor', {'prefix': NONE_, 'suffix': NONE_})})
    contents = {'nothing': ((), 0), 'a value': (((key('v'), scal('v')),), 1),
                'dotted-key values only': (((key('d'), ('ctor', I + 'Table', (tab(True, True, ((key('d.x'), scal('d.x')),)),))),), 1),
                'a sub-table only': (((key('s'), ('ctor', I + 'Table', (tab(False, False, ((key('s.x'), scal('s.x')),)),))),), 0)}
    rec = {'open_table_header', 'close_table_header', 'open_array_of_tables_header', 'close_array_of_tables_header', 'keyval_sep', 'prefix_encode', 'suffix_encode', 'write_str'}
    # how the traversal tells visit_table that a table is a [[table]] element (a bool today; an enum would do as well): what visit_nested_tables hands to its
    # callback for a plain sub-table and for an element of an array of tables
    kind_of = {False: False, True: True}
    pb = [p for p in b.get('params', []) if p.get('k') == 'p_bind']
    if len(pb) >= 5 and (pb[4].get('t') or 'bool') != 'bool':
        kind_of = None
        dn = 'toml_edit::encode::visit_nested_tables'
        if facts.has_body(dn):
            try:
                from .places import PlaceInterp
                from .den import VecObj
                from .rules_print import table_model, T as TT, AOT as TAOT
                seen = []
                unit_ok = ('ctor', 'core::result::Result::Ok', ((),))
                cb = ('pyfn', lambda t, p, k: (seen.append((len(getattr(p, 'items', p)), [keyname_(x) for x in getattr(p, 'items', p)], k)), unit_ok)[1])
                from .places import keyname as keyname_
                PlaceInterp(Evaluator(facts)).apply_fn(facts.body(dn), [table_model(TT({'plain': TT({}), 'elems': TAOT(TT({}))})), VecObj([]), ('root-kind',), cb])
                got = {tuple(names): k for _, names, k in seen}
                if ('plain',) in got and ('elems',) in got and got[('plain',)] != got[('elems',)]:
                    kind_of = {False: got[('plain',)], True: got[('elems',)]}
            except (Unanalysable, EvalPanic, TypeError, KeyError, IndexError, AttributeError) as ex:
                kind_of = None
        if kind_of is None:
            rep.incomplete(R, 'visit_table|header kind', 'cannot find out how visit_nested_tables tells visit_table that a table is an element of an array of tables', facts.loc(b))
            return
    for implicit in (False, True):
        for cname, (kids, nrows) in contents.items():
            for at_root in (True, False):
                for is_array in (False, True):
                    label = f'{"implicit" if implicit else "explicit"} {"[[table]] element" if is_array else "table"} {"at the root" if at_root else "under a path"} holding {cname}'
                    it = RecInterp(Evaluator(facts), rec, {'encode_key_path', 'encode_key_path_ref', 'encode_value'})
                    try:
                        it.apply_fn(b, [('opaque',), NONE_, tab(False, implicit, kids), () if at_root else (key('t'),), kind_of[is_array], True])
                    except EvalPanic as ex:
                        rep.bad(R, f'visit_table|{label}', f'visit_table panics for an {label}: {ex}', facts.loc(b))
                        continue
                    except Unanalysable as ex:
                        rep.incomplete(R, f'visit_table|{label}', f'cannot evaluate visit_table: {ex}', facts.loc(b))
                        continue
                    ev = [c[0] for c in it.calls]
                    head = 'aot' if 'open_array_of_tables_header' in ev else 'std' if 'open_table_header' in ev else None
                    want = None if at_root else ('aot' if is_array else ('std' if (not implicit or nrows) else None))
                    rows = ev.count('encode_value')
                    first_row = ev.index('encode_value') if rows else len(ev)
                    head_pos = max([i for i, x in enumerate(ev) if x in ('close_table_header', 'close_array_of_tables_header')] or [-1])
                    ok = head == want and rows == nrows and head_pos < first_row and ev.count('keyval_sep') == nrows
                    rep.check(R, f'visit_table|{label}', ok, f'header {head or "none"}, {rows} row(s)',
                              f'visit_table for an {label} writes header {head or "none"} (expected {want or "none"}) and {rows} row(s) (expected {nrows}, after the header): '
                              + ('the rows are printed under the previous header, so they land in another table' if rows and not head and not at_root else
                                 'a table appears, vanishes or loses values in the printed text'), facts.loc(b))



def presized_from_hint(rep, R, facts):
    """no container is pre-sized from an access object's `size_hint()`: the number is whatever the other side claims (serde documents it as untrusted and offers
    `size_hint::cautious`); `with_capacity(hint)` aborts or panics on a large claim — and, for toml::Map, only where the map type allocates eagerly (IndexMap under preserve_order)"""
    from .core import walk, peel, callee_all, last_seg
    n = 0
    for d, b in sorted(facts.bodies.items()):
        if not d.split('::')[0].lstrip('<') in ('toml', 'toml_edit', 'toml_datetime', 'serde_spanned', 'toml_write'):
            continue
        origins = None
        for c in walk(b['body']):
            if c.get('k') not in ('call', 'mcall'):
                continue
            from .core import strip_generics
            nm = c.get('name') if c.get('k') == 'mcall' else last_seg(strip_generics(peel(c.get('f', {})).get('path') or ''))
            if nm not in ('with_capacity', 'reserve', 'reserve_exact', 'with_capacity_and_hasher'):
                continue
            n += 1
            if origins is None:
                origins = local_origins(b['body'])

            def tainted(node, depth=0):
                for x in walk(node):
                    if x.get('k') == 'mcall' and x.get('name') == 'size_hint':
                        return True
                    if x.get('k') == 'path' and x.get('res') == 'Local' and x.get('path') in origins and depth < 4 and tainted(origins[x['path']], depth + 1):
                        return True
                return False
            bounded = lambda node: any(x.get('k') in ('mcall', 'call') and ((x.get('name') or '') in ('min', 'cautious', 'clamp') or last_seg(peel(x.get('f', {})).get('path') or '') in ('min', 'cautious')) for x in walk(node))
            args = c.get('args', [])
            if any(tainted(a) and not bounded(a) for a in args):
                rep.bad(R, f'{d}|{nm}', f'`{d}` sizes a container with `{nm}` from a `size_hint()`: the hint is an untrusted claim of the data source (a huge one aborts with "capacity overflow"; '
                        f'for toml::Map only under preserve_order, where the map allocates eagerly)', facts.loc(b, c))
    rep.check(R, 'pre-sizing calls', True, f'{n} with_capacity / reserve calls, none sized by a size_hint', '')


def no_reparse(rep, R, g):
    """a recursive construct must not be parsed twice from one position: with nesting the repeats multiply (2^depth) and a document nested well below the limit no longer finishes.
    Decided on the grammar terms: wherever the parser backtracks and goes on from the same position (the next branch of an alt, what follows an opt / repeat / separated whose
    last attempt failed, a peek), the abandoned attempt must not be able to fail *after* completing a recursive parser that the continuation then starts again."""
    from .rules_c05 import simple_cycles
    from .parsemodel import short
    edges = {}
    for d, t in g.terms.items():
        if t is not None:
            for f in g.mentions(t):
                if f in g.terms:
                    edges.setdefault(d, {})[f] = 1
    recs = set()
    for cyc in simple_cycles(edges):
        recs |= set(cyc)
    if not recs:
        rep.incomplete(R, 'recursive parsers', 'no recursive parser found: the mention graph is broken')
        return
    nm = g.nullable_map()
    nullable = lambda t: g._nullable_t(t, nm)
    sr_memo = {}

    def start_refs(t, seen=frozenset()):
        """recursive parsers that may be started at the position where t starts"""
        op = t['op']
        if op in ('ref', 'call'):
            f = t['fn']
            out = {f} & recs
            if f in g.terms and g.terms[f] is not None and f not in seen:
                if f in sr_memo:
                    out |= sr_memo[f]
                else:
                    r = start_refs(g.terms[f], seen | {f})
                    if not seen:
                        sr_memo[f] = r
                    out |= r
            if op == 'call':
                for a in t['args']:
                    if a is not None:
                        out |= start_refs(a, seen)
            return out
        if op == 'seq':
            out = set()
            for x in t['items']:
                out |= start_refs(x, seen)
                if not nullable(x):
                    break
            return out
        if op == 'alt':
            return set().union(*[start_refs(x, seen) for x in t['items']]) if t['items'] else set()
        if op in ('opt', 'rep', 'map', 'checkrec', 'peek', 'not'):
            return start_refs(t['p'], seen)
        if op == 'sep':
            return start_refs(t['p'], seen) | (start_refs(t['sep'], seen) if nullable(t['p']) else set())
        if op == 'and_then':
            return start_refs(t['p'], seen)
        if op == 'dispatch':
            out = set() if t.get('bound') else start_refs(t['scrut'], seen)
            for a in t['arms']:
                out |= start_refs(a['p'], seen)
            return out
        return set()

    def fallible(t, seen=frozenset()):
        """may fail with an error that backtracks"""
        op = t['op']
        if op == 'tok':
            return not (t['min'] == 0)
        if op == 'lit':
            return len(t['bytes']) > 0
        if op in ('eof', 'fail', 'not'):
            return True
        if op == 'empty':
            return False
        if op in ('opt',):
            return False
        if op == 'peek':
            return fallible(t['p'], seen)
        if op == 'seq':
            return any(fallible(x, seen) for x in t['items'])
        if op == 'alt':
            return all(fallible(x, seen) for x in t['items'])
        if op in ('rep', 'sep'):
            return t['min'] != 0 and fallible(t['p'], seen)
        if op == 'map':
            if t.get('kind') == 'cut':
                return False
            if t.get('kind') in ('verify', 'try_map', 'verify_map', 'parse_to'):
                return True
            return fallible(t['p'], seen)
        if op in ('checkrec', 'and_then'):
            return True
        if op == 'dispatch':
            return True
        if op == 'ref':
            f = t['fn']
            if f in g.terms and g.terms[f] is not None and f not in seen:
                return fallible(g.terms[f], seen | {f})
            return True
        return True

    def faf(t, seen=frozenset()):
        """recursive parsers that t may complete from its start position and still fail afterwards"""
        op = t['op']
        if op == 'ref':
            f = t['fn']
            if f in g.terms and g.terms[f] is not None and f not in seen:
                return faf(g.terms[f], seen | {f})
            return set()
        if op == 'seq':
            out = set()
            items = t['items']
            for i, x in enumerate(items):
                if any(fallible(y) for y in items[i + 1:]):
                    out |= start_refs(x)
                out |= faf(x, seen)
                if not nullable(x):
                    break
            return out
        if op == 'alt':
            return set().union(*[faf(x, seen) for x in t['items']]) if t['items'] else set()
        if op in ('opt',):
            return set()
        if op in ('rep', 'sep'):
            return faf(t['p'], seen) if t['min'] != 0 else set()
        if op == 'map':
            if t.get('kind') in ('verify', 'try_map', 'verify_map', 'parse_to'):
                return start_refs(t['p']) | faf(t['p'], seen)
            return faf(t['p'], seen)
        if op in ('checkrec', 'peek'):
            return faf(t['p'], seen)
        if op == 'and_then':
            return start_refs(t['p']) | faf(t['p'], seen)
        if op == 'dispatch':
            return set().union(*[faf(a['p'], seen) for a in t['arms']]) if t['arms'] else set()
        return set()
    n = 0
    for d, t in sorted(g.terms.items()):
        if t is None:
            continue
        loc = g.facts.loc(g.facts.body(d)) if g.facts.has_body(d) else ''
        for x in g.subterms(t):
            op = x['op']
            if op == 'alt':
                items = x['items']
                for i in range(len(items)):
                    later = set().union(*[start_refs(y) for y in items[i + 1:]]) if items[i + 1:] else set()
                    n += 1
                    hz = faf(items[i]) & later
                    if hz:
                        rep.bad(R, f'{short(d)}|alt', f'`{short(d)}`: a branch of an alternative can fail after it has parsed {sorted(short(h) for h in hz)}, and a later branch parses it again from the '
                                f'same position: nested {sorted(short(h) for h in hz)[0]}s are parsed 2^depth times', loc)
            elif op == 'seq':
                items = x['items']
                for i, y in enumerate(items):
                    inner = y
                    while inner.get('op') == 'map' and inner.get('kind') != 'cut':
                        inner = inner['p']
                    if inner.get('op') in ('opt', 'rep', 'sep'):
                        n += 1
                        rest = {'op': 'seq', 'items': items[i + 1:]}
                        hz = faf(inner['p']) & start_refs(rest)
                        if hz:
                            rep.bad(R, f'{short(d)}|{inner["op"]}', f'`{short(d)}`: the last attempt of an optional / repeated part can fail after it has parsed {sorted(short(h) for h in hz)}, and '
                                    f'what follows parses it again from the same position: nested {sorted(short(h) for h in hz)[0]}s are parsed 2^depth times', loc)
                    if inner.get('op') in ('peek', 'not'):
                        n += 1
                        hz = start_refs(inner['p'])
                        if hz:
                            rep.bad(R, f'{short(d)}|peek', f'`{short(d)}` looks ahead with a recursive parser {sorted(short(h) for h in hz)}: what it saw is then parsed again', loc)
    rep.check(R, 'retry points', n >= 60, f'{n} retry points (alternatives, optional / repeated parts, look-aheads) over {len(recs)} recursive parsers {sorted(short(r) for r in recs)}: none re-parses one',
              f'only {n} retry points found in the grammar terms')
