"""C05 — nesting is bounded (decided part: every recursion of the parser is charged to
one bounded counter with balanced enter/exit; the depth budget of dotted keys)."""
from .core import run_property, AnalysisIncomplete, walk, peel, last_seg, calls_in, callee_all, strip_generics, src_facts, item_scope
from .cfgm import cfg_of
from .den import Evaluator, Unanalysable
from . import parsemodel as pm
from .parsemodel import P, term, short

PROP = 'C05'


def find_cycle(graph):
    color = {}
    stack = []

    def dfs(u):
        color[u] = 1
        stack.append(u)
        for v in graph.get(u, ()):
            if color.get(v, 0) == 1:
                return stack[stack.index(v):] + [v]
            if color.get(v, 0) == 0:
                c = dfs(v)
                if c:
                    return c
        stack.pop()
        color[u] = 2
        return None
    for u in sorted(graph):
        if color.get(u, 0) == 0:
            c = dfs(u)
            if c:
                return c
    return None


def r1_guarded(rep, g):
    R = rep.rule('C05/R1', 'every cycle of the parser\'s mention graph (calls and parsers passed as values) passes through check_recursion: '
                 'with the check_recursion-wrapped edges removed the graph is acyclic', floor=3)
    guarded = {}
    full = {}
    for d, t in g.terms.items():
        if t is None:
            continue
        guarded[d] = [f for f in g.mentions(t, through_checkrec=False) if f in g.terms]
        full[d] = [f for f in g.mentions(t, through_checkrec=True) if f in g.terms]
    cyc = find_cycle(guarded)
    rep.check(R, 'acyclic-without-check_recursion', cyc is None, f'{len(guarded)} parser functions, no unguarded cycle',
              'unguarded recursion: ' + ' -> '.join(short(x) for x in (cyc or [])) + ' (none of these edges is wrapped in check_recursion, so nesting depth is not charged)')
    # positive control: the recursion exists and is cut by the wrappers
    cyc2 = find_cycle(full)
    rep.check(R, 'positive-control|recursion-exists', cyc2 is not None, 'with the wrappers ignored a cycle exists: ' + ' -> '.join(short(x) for x in (cyc2 or [])),
              'no recursion found at all in the parser: the mention graph is broken')
    wraps = []
    for d, t in g.terms.items():
        if t is None:
            continue
        for x in g.subterms(t):
            if x['op'] == 'checkrec':
                wraps.append((short(d), [short(f) for f in g.mentions(x['p'])]))
    rep.check(R, 'wrappers', len(wraps) >= 1, f'check_recursion wraps {wraps}', f'only {len(wraps)} check_recursion wrapper(s): {wraps}')
    # the wrapper really is parser::prelude::check_recursion with a parser parameter
    t = g.terms.get(P + 'prelude::check_recursion')
    rep.check(R, 'check_recursion|shape', t is not None and any(x['op'] == 'param' for x in g.subterms(t)), 'runs its parser argument',
              'check_recursion no longer runs the wrapped parser')


def mentions_depth(g, t):
    """[(fn, number of check_recursion wrappers above the mention)] for a term"""
    out = []
    stack = [(t, 0)]
    while stack:
        x, dep = stack.pop()
        if not isinstance(x, dict) or 'op' not in x:
            continue
        op = x['op']
        if op in ('ref', 'call'):
            out.append((x['fn'], dep))
        if op in ('seq', 'alt'):
            stack.extend((y, dep) for y in x['items'])
        elif op in ('opt', 'peek', 'not', 'map', 'rep'):
            stack.append((x['p'], dep))
        elif op == 'checkrec':
            stack.append((x['p'], dep + 1))
        elif op == 'sep':
            stack.extend([(x['p'], dep), (x['sep'], dep)])
        elif op == 'and_then':
            stack.extend([(x['p'], dep), (x['q'], dep)])
        elif op == 'dispatch':
            if not x.get('bound'):
                stack.append((x['scrut'], dep))
            stack.extend((a['p'], dep) for a in x['arms'])
        if op == 'call':
            stack.extend((a, dep) for a in x['args'] if a is not None)
    return out


def simple_cycles(edges, limit=200):
    """simple cycles of a small digraph {u: {v: ..}}, each reported once (rotated to its least node)"""
    nodes = sorted(edges)
    out = []
    for start in nodes:
        path = [start]

        def dfs(u):
            if len(out) >= limit:
                return
            for v in sorted(edges.get(u, ())):
                if v == start:
                    out.append(list(path))
                elif v > start and v not in path:
                    path.append(v)
                    dfs(v)
                    path.pop()
        dfs(start)
    return out


def r1b_charged_once(rep, g):
    R = rep.rule('C05/R1b', 'every recursive cycle of the parser is charged to the depth counter exactly once: along each simple cycle of the mention '
                 'graph exactly one edge is wrapped in check_recursion (twice would halve the accepted depth of that construct)', floor=2)
    edges = {}
    for d, t in g.terms.items():
        if t is None:
            continue
        for f, dep in mentions_depth(g, t):
            if f in g.terms:
                edges.setdefault(d, {}).setdefault(f, set()).add(dep)
    cycles = simple_cycles(edges)
    if not cycles:
        rep.incomplete(R, 'cycles', 'no recursive cycle found in the parser: the mention graph is broken')
        return
    for cyc in cycles:
        totals = {0}
        for i, u in enumerate(cyc):
            v = cyc[(i + 1) % len(cyc)]
            totals = {a + b for a in totals for b in edges[u][v]}
        name = ' -> '.join(short(x) for x in cyc + [cyc[0]])
        loc = g.facts.loc(g.facts.body(cyc[0]))
        rep.check(R, name, totals == {1}, 'one check_recursion on the cycle',
                  f'the cycle {name} passes through check_recursion {sorted(totals)} times: each level of this construct is charged '
                  f'{"more than once, so documents nested below the limit are rejected" if max(totals) > 1 else "not at all"}', loc)


def r1c_first_level(rep, g, facts):
    """the first container reached from an entry point is charged once as well (the cycles of R1b begin after it)"""
    R = rep.rule('C05/R1c', 'from every entry point of the parser (document, value, key, key path) each way down to a construct that recurses is charged to the depth counter exactly once: '
                 'the check_recursion wrappers between the entry point and the first recursive construct (the target of a wrapped edge of a cycle) number exactly one on every path, '
                 'so the limit is the same through every entry point', floor=2)
    edges = {}
    for d, t in g.terms.items():
        if t is None:
            continue
        for f, dep in mentions_depth(g, t):
            if f in g.terms:
                edges.setdefault(d, {}).setdefault(f, set()).add(dep)
    charged = set()
    for cyc in simple_cycles(edges):
        for i, u in enumerate(cyc):
            v = cyc[(i + 1) % len(cyc)]
            if any(dep > 0 for dep in edges[u][v]):
                charged.add(v)
    if not charged:
        rep.incomplete(R, 'charged constructs', 'no wrapped edge on a cycle found')
        return
    memo = {}

    def totals(n, seen=()):
        """numbers of wrappers on the ways from n down to a charged construct (edges out of charged constructs are not followed: the graph is then acyclic)"""
        if n in memo:
            return memo[n]
        out = set()
        for v, deps in edges.get(n, {}).items():
            if v in seen:
                continue
            if v in charged:
                out |= set(deps)
            else:
                out |= {a + b for a in deps for b in totals(v, seen + (n,))}
        memo[n] = out
        return out
    n_entries = 0
    for d, b in sorted(facts.bodies.items()):
        if not (d.startswith(P) and d.count('::') == 2 and g.terms.get(d, 0) is None):
            continue
        # the parsers an entry function runs, with the wrappers put around them there
        ments = []

        def rec(n, dep):
            if isinstance(n, dict):
                if n.get('k') == 'call' and last_seg((peel(n.get('f', {})).get('path') or '')) == 'check_recursion':
                    for a in n.get('args', []):
                        rec(a, dep + 1)
                    return
                if n.get('k') == 'path' and n.get('path') in g.terms and g.terms.get(n['path']) is not None:
                    ments.append((n['path'], dep))
                for v in n.values():
                    rec(v, dep)
            elif isinstance(n, list):
                for v in n:
                    rec(v, dep)
        rec(b['body'], 0)
        for f, dep in ments:
            ts = {dep + x for x in totals(f)} if f not in charged else {dep}
            if not ts:
                rep.ok(R, f'{short(d)} -> {short(f)}', 'reaches no recursive construct', facts.loc(b))
                continue
            n_entries += 1
            rep.check(R, f'{short(d)} -> {short(f)}', ts == {1}, f'one check_recursion on every way to {sorted(short(c) for c in charged)}',
                      f'through the entry point `{short(d)}` the first recursive construct is reached under {sorted(ts)} check_recursion wrapper(s): this entry point '
                      f'{"accepts less nesting than the others (documents nested below the limit are refused)" if max(ts) > 1 else "does not charge the first level"}', facts.loc(b))
    rep.check(R, 'entry points', n_entries >= 2, f'{n_entries} entry points reach a recursive construct', f'only {n_entries} entry point(s) of the parser reach a recursive construct (document and value expected)')


def r2_pairing(rep, facts):
    R = rep.rule('C05/R2', 'check_recursion: enter precedes the inner parser, and every path from the inner parser to the return passes '
                 'through exit exactly once (also when the inner parser fails)', floor=4)
    name = None
    for d in facts.mir:
        if d.startswith(P + 'prelude::check_recursion::{closure#0}') and d.count('{closure') == 1:
            name = d
    if name is None:
        raise AnalysisIncomplete('closure of check_recursion not found in MIR')
    cfg = cfg_of(facts, name)
    loc = f"{facts.rel(cfg.m['file'])}:{cfg.m['line']}"
    enter = cfg.calls(lambda n: n.endswith('RecursionCheck::enter'))
    exit_ = cfg.calls(lambda n: n.endswith('RecursionCheck::exit'))
    inner = cfg.calls(lambda n: last_seg(n) == 'parse_next')
    rep.check(R, 'one-enter-one-exit', len(enter) == 1 and len(exit_) == 1 and len(inner) == 1, f'enter x{len(enter)}, parse_next x{len(inner)}, exit x{len(exit_)}',
              f'check_recursion has {len(enter)} enter, {len(inner)} inner parse and {len(exit_)} exit call sites (expected 1/1/1)', loc)
    if not (enter and exit_ and inner):
        return
    rep.check(R, 'enter-before-inner', all(cfg.dominates(enter[0], i) for i in inner), 'enter dominates the inner parse_next',
              'the inner parser can run without the depth counter having been incremented', loc)
    after = cfg.reach_from_succ(inner, avoid=set(exit_))
    leak = [r for r in cfg.returns() if r in after]
    rep.check(R, 'exit-on-every-path', not leak and all(cfg.dominates(inner[0], e) for e in exit_), 'no path from the inner parser to the return avoids exit',
              'a path from the inner parser to the return skips exit(): the depth counter leaks (e.g. on a recovered backtrack) or is never restored', loc)
    # a failed enter leaves through a cut (non-recoverable) error and never runs the inner parser: on the MIR, every path from the enter
    # call to a return that avoids the inner parse_next passes through ErrMode::cut
    cut = cfg.calls(lambda n: last_seg(n) == 'cut' and 'ErrMode' in n)
    err_paths = cfg.reach_from_succ(enter, avoid=set(inner) | set(cut))
    leak2 = [r for r in cfg.returns() if r in err_paths]
    # the same through `enter().map_err(|e| ..cut())?` (the cut is then in the closure passed to map_err)
    hb = facts.body(P + 'prelude::check_recursion')
    okcut = False
    for n in walk(hb['body']):
        if n.get('k') == 'mcall' and n.get('name') == 'map_err' and peel(n['recv']).get('k') == 'mcall' and peel(n['recv']).get('name') == 'enter':
            okcut = any(x.get('k') == 'mcall' and x.get('name') == 'cut' for x in walk(n['args'][0])) and \
                any(m.get('k') == 'match' and 'TryDesugar' in (m.get('src') or '') and any(y is n for y in walk(m)) for m in walk(hb['body']))
    rep.check(R, 'enter-error-is-cut', okcut or (bool(cut) and not leak2), 'the failing path returns a cut error without running the inner parser',
              'a failed enter() is no longer turned into a cut (non-recoverable) error (or the inner parser runs although the depth check failed)', loc)

def r3_bound(rep, facts):
    R = rep.rule('C05/R3', 'the limit is a small constant, both comparisons reject at LIMIT <= depth, and the counter is written only in enter / exit', floor=4)
    ev = Evaluator(facts)
    lim = None
    try:
        lim = ev.integer({'k': 'path', 'res': 'Const', 'path': P + 'prelude::LIMIT'})
    except Unanalysable as e:
        rep.incomplete(R, 'LIMIT', str(e))
        return
    rep.check(R, 'LIMIT|value', 2 <= lim <= 128, f'LIMIT = {lim}', f'LIMIT = {lim} is outside 2..=128 (the stack bound relies on a small constant)')
    # both entry points of the counter, evaluated for every depth around the limit (whatever their syntactic form; `enter` may delegate to check_depth)
    from .den import FxInterp
    is_err = lambda r: isinstance(r, tuple) and r and r[0] == 'ctor' and r[1].endswith('Result::Err')
    is_limit = lambda r: is_err(r) and 'RecursionLimitExceeded' in repr(r)
    b = facts.body(P + 'prelude::RecursionCheck::check_depth')
    try:
        it = FxInterp(ev)
        pn = [p['name'] for p in b.get('params', []) if p.get('k') == 'p_bind']
        res = {d: it.run(b['body'], {pn[-1]: d}) for d in range(0, lim + 3)}
        wrong = [d for d, r in res.items() if is_err(r) != (lim <= d) or (is_err(r) and not is_limit(r))]
        rep.check(R, 'prelude::RecursionCheck::check_depth|comparison', not wrong, f'Err(RecursionLimitExceeded) exactly for depth >= {lim}',
                  f'`check_depth` does not reject exactly at LIMIT <= depth: wrong verdict for depth {wrong[:5]}', facts.loc(b))
    except Unanalysable as e:
        rep.incomplete(R, 'prelude::RecursionCheck::check_depth|comparison', f'cannot evaluate: {e}', facts.loc(b))
    b = facts.body(P + 'prelude::RecursionCheck::enter')
    try:
        pn = [p['name'] for p in b.get('params', []) if p.get('k') == 'p_bind']
        wrong = []
        for c in range(0, lim + 2):
            it = FxInterp(ev)
            env = {pn[0]: ('self',), '.current': c, '@assign': {}}
            try:
                r = it.run_body(b, env)
            except Exception as ex:   # Ret carries the early return
                r = getattr(ex, 'v', None)
                if r is None:
                    raise
            after = env.get('.current')
            if after != c + 1 or is_err(r) != (lim <= c + 1) or (is_err(r) and not is_limit(r)):
                wrong.append((c, after, 'Err' if is_err(r) else 'Ok'))
        rep.check(R, 'prelude::RecursionCheck::enter|comparison', not wrong, f'current += 1, then Err(RecursionLimitExceeded) exactly when LIMIT <= current',
                  f'`enter` does not count and reject at LIMIT <= depth: (current before, after, result) = {wrong[:4]}', facts.loc(b))
    except Unanalysable as e:
        rep.incomplete(R, 'prelude::RecursionCheck::enter|comparison', f'cannot evaluate: {e}', facts.loc(b))
    writers = []
    for d, b in facts.bodies.items():
        if not d.startswith('toml_edit::') and not d.startswith('<toml_edit::'):
            continue
        for n in walk(b['body']):
            if n.get('k') in ('assign', 'assignop'):
                l = peel(n['lhs'])
                if l.get('k') == 'field' and l.get('name') == 'current' and (l.get('adt') or '').endswith('RecursionCheck'):
                    writers.append((d, n.get('op', '=')))
    names = sorted(set(short(d) for d, _ in writers))
    ops = sorted(set((short(d), op) for d, op in writers))
    rep.check(R, 'counter|writers', names == ['prelude::RecursionCheck::enter', 'prelude::RecursionCheck::exit'] and
              ops == [('prelude::RecursionCheck::enter', '+='), ('prelude::RecursionCheck::exit', '-=')], f'{ops}',
              f'the depth counter is written by {ops} (expected += 1 in enter and -= 1 in exit only)')


def r4_budget(rep, facts, g):
    R = rep.rule('C05/R4', 'dotted-key / header-path depth is charged: the one key-path parser checks the path length, every path consumer '
                 'receives its path from that parser, and the check draws on the shared counter (one budget)', floor=3)
    b = facts.body(P + 'key::key')
    loc = facts.loc(b)
    cds = [n for n in calls_in(b['body']) if any(c.endswith('RecursionCheck::check_depth') for c in callee_all(n))]
    rep.check(R, 'key::key|checks-depth', len(cds) >= 1, 'key() calls RecursionCheck::check_depth',
              'the key-path parser no longer checks the number of dotted segments: an `[[a.a.a…]]` header or dotted key builds a tree as deep as it is long', loc)
    # the failure of the length check must leave the key parser: a check sitting inside the element of a repetition (or of an optional / alternative part) fails
    # with a recoverable error there, the repetition just ends, and the over-long path is reported as a syntax error — or, worse, accepted in part
    def find_checks(t, above, out):
        if isinstance(t, dict):
            if t.get('op') == 'map' and t.get('kind') in ('try_map', 'verify_map', 'verify', 'map', 'and_then') and isinstance(t.get('filt') or t.get('node'), dict) and \
                    any(any(c.endswith('RecursionCheck::check_depth') for c in callee_all(n)) for n in calls_in(t.get('filt') or {})):
                out.append((t, list(above)))
            is_cut = t.get('op') == 'map' and t.get('kind') == 'cut_err'
            nxt = [] if is_cut else above + ([t] if t.get('op') in ('sep', 'rep', 'opt', 'alt', 'fold') else [])
            for kk, v in t.items():
                if kk in ('node', 'filt', 'recv', 'args'):
                    continue
                find_checks(v, nxt, out)
        elif isinstance(t, list):
            for x in t:
                find_checks(x, above, out)
        return out
    try:
        sites = find_checks(term(g, 'key::key'), [], [])
        inside = [(s_, ab) for s_, ab in sites if ab]
        rep.check(R, 'key::key|check-escapes', bool(sites) and not inside, 'the check is applied to the whole path, outside every repetition',
                  'the depth check of `key::key` ' + (f'sits inside a `{inside[0][1][-1].get("op")}` combinator (line {inside[0][1][-1].get("l")}): its failure is recoverable there, the repetition ends '
                                                    'with the segments parsed so far and the recursion-limit error is lost' if inside else 'was not found in the combinator model'), loc)
    except Exception as ex:      # the model of key() could not be walked
        rep.incomplete(R, 'key::key|check-escapes', f'cannot walk the combinator model of key::key: {ex}', loc)
    # all consumers of key paths get them from key(): the parsers that feed on_keyval / headers / table_from_pairs mention key
    for fn in ('document::parse_keyval', 'table::std_table', 'table::array_table', 'inline_table::keyval'):
        t = term(g, fn)
        rep.check(R, f'{fn}|path-from-key', P + 'key::key' in g.mentions(t), 'path parsed by key()', f'`{fn}` no longer parses its key path with key()', facts.loc(facts.body(P + fn)))
    # no other call site of check_depth is needed then; report where else it is checked (informational)
    others = [short(d) for d, bb in facts.bodies.items() if d.startswith(P) and d != P + 'key::key' and
              any(any(c.endswith('RecursionCheck::check_depth') for c in callee_all(n)) for n in calls_in(bb['body']))]
    rep.info(R, f'other check_depth call sites: {others}')
    # the length check lives in the key parser (and may be reused by enter): a second, differently scoped check elsewhere (e.g. header path + key
    # path in on_keyval) makes two constructs share one budget and rejects documents that are below the limit in each
    extra = [o for o in others if o not in ('prelude::RecursionCheck::enter',)]
    rep.check(R, 'check_depth|callers', not extra, 'called from key() (and enter) only', f'RecursionCheck::check_depth is also called from {extra}: paths that are below the limit in each single '
              f'construct (e.g. a 40-segment header and a 40-segment key) are rejected', loc)
    # one budget: the argument must depend on the shared counter
    dep = False
    for n in cds:
        for a in n.get('args', []):
            for x in walk(a):
                if x.get('k') == 'field' and x.get('name') in ('current', 'state'):
                    dep = True
                if x.get('k') == 'mcall' and x.get('name') in ('depth', 'current'):
                    dep = True
    if cds:
        rep.check(R, 'toml_edit::parser::key::key|check_depth-independent-of-counter', dep, 'check_depth(counter + k.len())',
                  'check_depth(k.len()) does not draw on RecursionCheck.current: array / inline-table depth and dotted-key depth are '
                  'bounded separately and multiply (10 nested inline tables x 79-segment dotted keys = depth 790 in 1.8 KB)', loc)


def r5_unbounded(rep, facts):
    R = rep.rule('C05/R5', 'the only cfg that removes the counter is feature = "unbounded"', floor=1)
    src = src_facts(facts.repo)
    # the gates on the counter itself, wherever in the parser module tree it is defined
    sites = [c for c in src['cfgs'] if '/toml_edit/src/parser/' in c['file'] and
             ('RecursionCheck' in item_scope(src, c) or (c['node'].startswith('item') and c['name'] in ('LIMIT', 'RecursionCheck', 'check_recursion')))]
    preds = sorted(set(c['pred'] for c in sites))
    # (a twin `#[cfg(feature = "unbounded")] impl` with empty bodies next to the real one is the same switch written the other way round)
    rep.check(R, 'prelude|cfg-predicates', preds and set(preds) <= {'not (feature = "unbounded")', 'feature = "unbounded"'}, f'{len(sites)} gates, all on feature "unbounded"',
              f'the recursion counter is gated by {preds}')


def rules(rep, facts):
    feats = set(facts.crates.get('toml_edit', {}).get('features', []))
    if 'toml_edit' not in facts.crates or 'parse' not in feats:
        rep.notes.append(f'configuration {facts.config}: parser not compiled, rules skipped.')
        return
    g = pm.model(facts)
    r1_guarded(rep, g)
    r1b_charged_once(rep, g)
    r1c_first_level(rep, g, facts)
    from .shared import no_reparse
    no_reparse(rep, rep.rule('C05/R6', 'no recursive construct is parsed twice from one position (backtracking over a nested array or inline table multiplies with the depth: 2^depth parses, so '
                                       'a document nested well below the limit never finishes)', floor=1), g)
    if 'unbounded' in feats:
        rep.notes.append(f'configuration {facts.config}: the counter is compiled out by design (documented exception), R2-R4 skipped.')
        return
    r2_pairing(rep, facts)
    r3_bound(rep, facts)
    r4_budget(rep, facts, g)
    r5_unbounded(rep, facts)


def run(tier):
    return run_property(PROP, tier, rules, configs_thorough=['default', 'perf', 'unbounded', 'edit_parse', 'toml_parse'])
