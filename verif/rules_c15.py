"""C15 — every rejection is a well-formed, correctly located error (decided part: span /
raw text / key attached on every explicit path, non-empty messages, rendering clamps)."""
from .core import run_property, AnalysisIncomplete, walk, peel, last_seg, calls_in, callee_all, strip_generics, src_facts
from .den import Evaluator, Unanalysable
from . import parsemodel as pm

PROP = 'C15'
DE = 'serde::de::Deserializer'


def with_ancestors(root):
    out = []

    def rec(n, anc):
        if isinstance(n, dict):
            out.append((n, list(anc)))
            anc.append(n)
            for v in n.values():
                rec(v, anc)
            anc.pop()
        elif isinstance(n, list):
            for v in n:
                rec(v, anc)
    rec(root, [])
    return out


def closure_sets_span_if_none(clo):
    """|mut e| { if e.span().is_none() { e.set_span(X) } ... e }  -> (guarded set_span, extra calls)"""
    if clo is None or clo.get('k') != 'closure':
        return False, []
    body = clo['body']
    ok = False
    for n in walk(body):
        if n.get('k') == 'if':
            c = peel(n['cond'])
            if c.get('k') == 'mcall' and c.get('name') == 'is_none' and peel(c['recv']).get('k') == 'mcall' and peel(c['recv']).get('name') == 'span':
                if any(x.get('k') == 'mcall' and x.get('name') == 'set_span' for x in walk(n['then'])) and 'else' not in n:
                    ok = True
    unguarded = False
    for n, anc in with_ancestors(body):
        if n.get('k') == 'mcall' and n.get('name') == 'set_span':
            if not any(a.get('k') == 'if' for a in anc):
                unguarded = True
    names = [n.get('name') for n in walk(body) if n.get('k') == 'mcall']
    return ok and not unguarded, names


def span_map_err_above(node, anc):
    for a in reversed(anc):
        if a.get('k') == 'mcall' and a.get('name') == 'map_err' and a.get('args'):
            ok, names = closure_sets_span_if_none(peel(a['args'][0]))
            if ok:
                return True
    return False


def r1_span_attached(rep, facts):
    R = rep.rule('C15/R1', 'in every explicit method of toml_edit\'s ValueDeserializer the result of each visitor call flows through a map_err that '
                 'sets the span only when the error has none (the innermost span wins); each explicit method of Deserializer<S> attaches the raw text', floor=12)
    for imp in facts.impls:
        if imp.get('trait') != DE:
            continue
        ty = imp['self_ty']
        if ty == 'toml_edit::de::value::ValueDeserializer':
            for it in imp['items']:
                if not facts.has_body(it['def']) or facts.body(it['def']).get('x') or it['kind'] != 'AssocFn':
                    continue
                b = facts.body(it['def'])
                i = 0
                for n, anc in with_ancestors(b['body']):
                    is_visit = n.get('k') == 'mcall' and (n.get('name') or '').startswith('visit_') and (peel(n['recv']).get('path') or '').startswith('visitor')
                    is_deleg = n.get('k') == 'mcall' and (n.get('name') or '').startswith('deserialize_') and n.get('name') != it['name'] + '_' and \
                        any(x.get('k') == 'mcall' and x.get('name') == 'into_deserializer' for x in walk(n['recv']))
                    is_validate = n.get('k') == 'call' and last_seg((peel(n.get('f', {})).get('path') or '')) == 'validate_struct_keys'
                    if not (is_visit or is_deleg or is_validate):
                        continue
                    label = n.get('name') or 'validate_struct_keys'
                    key = f'ValueDeserializer::{it["name"]}|{label}#{i}'
                    i += 1
                    # allowlisted hand-off: visit_map(SpannedDeserializer::new(self, span)) — the inner value deserializer attaches its own span
                    if is_visit and any('SpannedDeserializer' in (peel(x.get('f', {})).get('path') or '') for x in walk(n) if x.get('k') == 'call'):
                        rep.ok(R, key, 'hand-off to SpannedDeserializer (inner value deserializer attaches the span)', facts.loc(b, n))
                        continue
                    # `self.deserialize_any(visitor)` tail calls are covered by the callee
                    ok = span_map_err_above(n, anc)
                    rep.check(R, key, ok, 'map_err(|e| { if e.span().is_none() { e.set_span(span) }; e })',
                              f'the result of `{label}` in `ValueDeserializer::{it["name"]}` is returned without the span-if-missing map_err (or the closure overwrites '
                              f'an existing span): errors raised by the target type are unlocated, or lose the innermost location', facts.loc(b, n))
        if ty == 'toml_edit::de::Deserializer<S>':
            for it in imp['items']:
                if not facts.has_body(it['def']) or facts.body(it['def']).get('x') or it['kind'] != 'AssocFn':
                    continue
                b = facts.body(it['def'])
                tail = peel(b['body'].get('expr') or {})
                ok = tail.get('k') == 'mcall' and tail.get('name') == 'map_err' and any(x.get('k') == 'mcall' and x.get('name') == 'set_raw' for x in walk(tail['args'][0]))
                if not ok:
                    # the same written as a match: every `Err` arm attaches the text (`Err(mut e) => { e.set_raw(..); Err(e) }`), and no error leaves through `?`
                    err_arms = [a for m_ in walk(b['body']) if m_.get('k') == 'match' and 'TryDesugar' not in (m_.get('src') or '') for a in m_.get('arms', [])
                                if any((x.get('path') or '').endswith('Result::Err') for x in walk(a['pat']))]
                    tries = [m_ for m_ in walk(b['body']) if m_.get('k') == 'match' and 'TryDesugar' in (m_.get('src') or '')]
                    ok = bool(err_arms) and not tries and all(any(x.get('k') in ('mcall', 'call') and (x.get('name') == 'set_raw' or last_seg(peel(x.get('f', {})).get('path') or '') == 'set_raw')
                                                                  for x in walk(a['body'])) for a in err_arms)
                rep.check(R, f'Deserializer<S>::{it["name"]}|set_raw', ok, '.map_err(|e| { e.inner.set_raw(raw); e })', f'`Deserializer<S>::{it["name"]}` does not attach the source text to errors '
                          f'(they render without line / column)', facts.loc(b))


def r2_keys(rep, facts):
    R = rep.rule('C15/R2', 'map access attaches the key path and a span: next_value_seed adds the key and the value-or-key span, next_key_seed / '
                 'variant_seed the key span; toml\'s MapDeserializer adds the key', floor=4)
    targets = [("<toml_edit::de::table::TableMapAccess as serde::de::MapAccess<'de>>::next_value_seed", {'add_key', 'set_span'}),
               ("<toml_edit::de::table::TableMapAccess as serde::de::MapAccess<'de>>::next_key_seed", {'set_span'}),
               ("<toml_edit::de::table::TableMapAccess as serde::de::EnumAccess<'de>>::variant_seed", {'set_span'}),
               ("<toml::value::MapDeserializer as serde::de::MapAccess<'de>>::next_value_seed", {'add_key'})]
    for d, want in targets:
        if not facts.has_body(d):
            continue
        b = facts.body(d)
        found = set()
        for n in walk(b['body']):
            if n.get('k') == 'mcall' and n.get('name') == 'map_err' and n.get('args'):
                ok, names = closure_sets_span_if_none(peel(n['args'][0]))
                clo = peel(n['args'][0])
                if clo.get('k') == 'closure':
                    for m, anc in with_ancestors(clo['body']):
                        # the key is added on every error, whether or not it already has a span
                        if m.get('k') == 'mcall' and m.get('name') == 'add_key' and not any(a.get('k') in ('if', 'match') for a in anc):
                            found.add('add_key')
                if ok:
                    found.add('set_span')
        rep.check(R, d.split(' as ')[0].lstrip('<') + '::' + last_seg(strip_generics(d)), want <= found, f'{sorted(found)}', f'`{d}` attaches {sorted(found)}, expected {sorted(want)}', facts.loc(b))
    d = "<toml_edit::de::table::TableMapAccess as serde::de::MapAccess<'de>>::next_value_seed"
    if facts.has_body(d):
        b = facts.body(d)
        fb = any(n.get('k') == 'mcall' and n.get('name') == 'or_else' and peel(n['recv']).get('k') == 'mcall' and peel(n['recv']).get('name') == 'span' for n in walk(b['body']))
        rep.check(R, 'TableMapAccess::next_value_seed|span-fallback', fb, 'v.span().or_else(|| k.span())', 'the value span no longer falls back to the key span', facts.loc(b))


TEXT_TYPES = ('&str', "&'_ str", '&[u8]', "&'_ [u8]")


def r2c_source_kept(rep, facts):
    R = rep.rule('C15/R2c', 'every entry point that builds a deserializer from text parses into ImDocument (which keeps item spans and the source text), '
                 'never into DocumentMut (which drops both): otherwise decoding errors carry neither line / column nor a snippet although the text was available', floor=4)
    n = 0
    for d, b in sorted(facts.bodies.items()):
        if not (d.startswith('toml_edit::de::') or d.startswith('<toml_edit::de::') or d.startswith('toml::de::') or d.startswith('<toml::de::')):
            continue
        if b['kind'] not in ('Fn', 'AssocFn') or '::test' in d:
            continue
        ptys = [p.get('t') or '' for p in b.get('params', []) if p.get('k') == 'p_bind']
        f = facts.fns.get(d, {})
        textual = any(t.replace("'_ ", '').replace("'de ", '').replace("'a ", '') in ('&str', '&[u8]') or t == 'S' for t in ptys)
        if not textual:
            continue
        parsers = []
        for x in walk(b['body']):
            if x.get('k') in ('mcall', 'call'):
                names = callee_all(x)
                blob = ' '.join(names) + ' ' + ' '.join(x.get('gargs') or []) + ' ' + (x.get('t') or '')
                nm = x.get('name') or last_seg(names[0] if names else '')
                if nm in ('parse', 'from_str', 'parse_document') or nm == 'from_utf8':
                    parsers.append((nm, blob))
        if not parsers:
            continue
        docmut = [nm for nm, blob in parsers if 'DocumentMut' in blob and 'ImDocument' not in blob]
        n += 1
        rep.check(R, d, not docmut, 'parses into ImDocument / delegates to an entry point that does',
                  f'`{d}` parses its text into DocumentMut: item spans and the source text are dropped before deserialization, so a type mismatch is reported '
                  f'without location although the text was given', facts.loc(b))
    # the conversions: only ImDocument carries raw text
    for d, b in sorted(facts.bodies.items()):
        if 'core::convert::From<toml_edit::document::ImDocument<S>>' in d and d.startswith('<toml_edit::de::Deserializer'):
            ok = any(x.get('k') == 'call' and (peel(x.get('f', {})).get('path') or '').endswith('Option::Some') for x in walk(b['body']))
            rep.check(R, d + '|raw', ok, 'raw: Some(text)', 'From<ImDocument> for Deserializer no longer keeps the source text', facts.loc(b))


def r3_messages(rep, facts):
    R = rep.rule('C15/R3', 'TomlError::new takes the span from char_span() and the message from the inner error; every error variant renders a '
                 'non-empty literal (Display impls are exhaustive)', floor=5)
    if facts.has_body('toml_edit::error::TomlError::new'):
        b = facts.body('toml_edit::error::TomlError::new')
        names = {n.get('name') for n in walk(b['body']) if n.get('k') == 'mcall'}
        rep.check(R, 'TomlError::new', {'char_span', 'inner', 'to_string'} <= names, f'{sorted(names)}', f'TomlError::new uses {sorted(names)}', facts.loc(b))
    src = src_facts(facts.repo)
    for ty, adt, file in (('toml_edit::parser::error::CustomError', 'toml_edit::parser::error::CustomError', 'parser/error.rs'),
                          ('toml_edit::ser::Error', 'toml_edit::ser::Error', 'ser/mod.rs')):
        try:
            d = facts.method('core::fmt::Display', ty, 'fmt')
        except AnalysisIncomplete:
            continue
        b = facts.body(d)
        variants = {v['name'] for v in facts.adts[adt]['variants']}
        ms = [m for m in walk(b['body']) if m.get('k') == 'match' and m.get('src') == 'Normal']
        top = ms[0] if ms else None
        seen = set()
        empty = []
        if top:
            fm = {f['line']: f['lit'] for f in src['fmts'] if f['file'].endswith(file)}
            for arm in top['arms']:
                vs = [last_seg(x.get('path') or '') for x in walk(arm['pat']) if x.get('k') in ('p_tuplestruct', 'p_struct', 'p_expr') and (x.get('path') or (x.get('e') or {}).get('path'))]
                vs += [last_seg((x['e'].get('path') or '')) for x in walk(arm['pat']) if x.get('k') == 'p_expr' and x['e'].get('path')]
                for v in vs:
                    if v in variants:
                        seen.add(v)
                lits = [x.get('v') for x in walk(arm['body']) if x.get('k') == 'lit' and x.get('lk') == 'str']
                lines = {x.get('l') for x in walk(arm['body'])}
                lits += [fm[l].strip('"') for l in lines if l in fm]
                custom = any(last_seg(v) == 'Custom' for v in vs)
                if not custom and not any(len(x or '') > 0 for x in lits):
                    empty.append(vs)
        rep.check(R, f'Display for {last_seg(ty.rsplit("::", 1)[0])}::{last_seg(ty)}|exhaustive', seen == variants, f'{sorted(seen)}', f'variants without an arm: {sorted(variants - seen)}', facts.loc(b))
        rep.check(R, f'Display for {last_seg(ty.rsplit("::", 1)[0])}::{last_seg(ty)}|non-empty', not empty, 'every arm writes a non-empty literal', f'arms without text: {empty}', facts.loc(b))


def r4_rendering(rep, facts):
    R = rep.rule('C15/R4', 'rendering: translate_position, tabulated over small multi-byte texts and every index, never panics and yields the line and the character '
                 'column of the index (one past the end beyond the text); Display clamps the highlight to the line', floor=4)
    b = facts.body('toml_edit::error::translate_position')
    # the function is pure: it is tabulated over every text of up to four characters from {a, LF, e-acute (2 bytes), an emoji (4 bytes)} and every
    # character-boundary index up to two past the end, and compared with the specified position (whatever its syntactic form)
    import itertools
    from .den import FxInterp, EvalPanic
    it = FxInterp(Evaluator(facts))
    it.checked_arith = True
    ps = [p['name'] for p in b.get('params', []) if p.get('k') == 'p_bind']

    def spec(bs, index):
        if not bs:
            return (0, index)
        n = len(bs)
        safe = min(index, n - 1)
        off = index - safe
        cs = safe
        while cs > 0 and (bs[cs] & 0xC0) == 0x80:
            cs -= 1
        line_start = bs.rfind(b'\n', 0, safe) + 1
        return (bs[:line_start].count(b'\n'), len(bs[line_start:cs].decode('utf-8')) + off)
    toks = ['a', '\n', '\u00e9', '\U0001F600']
    bad = None
    panic = None
    n_eval = 0
    try:
        for k in range(0, 5):
            for combo in itertools.product(toks, repeat=k):
                text = ''.join(combo)
                bs = text.encode('utf-8')
                bounds = [len(text[:i].encode('utf-8')) for i in range(len(text) + 1)] + [len(bs) + 1, len(bs) + 2]
                for idx in bounds:
                    n_eval += 1
                    try:
                        r = it.run(b['body'], {ps[0]: tuple(bs), ps[1]: idx})
                    except EvalPanic as e:
                        if panic is None:
                            panic = (text, idx, str(e))
                        continue
                    if tuple(r) != spec(bs, idx) and bad is None:
                        bad = (text, idx, tuple(r), spec(bs, idx))
        rep.check(R, 'translate_position|no-panic', panic is None, f'{n_eval} (text, index) pairs evaluated without a panic',
                  f'translate_position panics for text {panic[0]!r}, index {panic[1]}: {panic[2]}' if panic else '', facts.loc(b))
        rep.check(R, 'translate_position|position', bad is None, 'line = newlines before, column = characters (not bytes) from the line start, one past the end beyond the text',
                  (f'for text {bad[0]!r} and byte index {bad[1]} translate_position gives (line, column) = {bad[2]}, the position is {bad[3]} '
                   f'(0-based; characters, not bytes)') if bad else '', facts.loc(b))
    except Unanalysable as e:
        rep.incomplete(R, 'translate_position|position', f'cannot evaluate translate_position: {e}', facts.loc(b))
    d = facts.method('core::fmt::Display', 'toml_edit::error::TomlError', 'fmt')
    b = facts.body(d)
    hl = False
    for n in walk(b['body']):
        if n.get('k') == 'mcall' and n.get('name') == 'min' and any(x.get('k') == 'mcall' and x.get('name') == 'saturating_sub' for x in walk(n['args'][0])):
            hl = True
    rep.check(R, 'Display for TomlError|highlight-clamp', hl, 'highlight_len.min(content.len().saturating_sub(column))', 'the highlight length is no longer clamped to the line', facts.loc(b))
    nth = any(n.get('k') == 'mcall' and n.get('name') == 'nth' and any(x.get('k') == 'mcall' and x.get('name') == 'split' for x in walk(n['recv'])) for n in walk(b['body']))
    rep.check(R, 'Display for TomlError|line-lookup', nth, "raw.split('\\n').nth(line)", 'the offending line is no longer looked up with split(\'\\n\').nth(line) (lines() drops the empty last line: panic at end of input after a newline)', facts.loc(b))


def r6_depth_cause(rep, facts):
    R = rep.rule('C15/R6', 'a rejection by the dotted-key depth check carries its cause: the check is attached with try_map (the CustomError becomes the '
                 'error\'s cause and message), not with verify (which only says "no" and leaves an empty message)', floor=1)
    from . import parsemodel as pm
    g = pm.model(facts)
    t = pm.term(g, 'key::key')
    b = facts.body(pm.P + 'key::key')
    found = []
    for kind, i, node in pm.filters(g, t):
        clo = node.get('filt')
        if clo is not None and any(any(c.endswith('RecursionCheck::check_depth') for c in callee_all(n)) for n in calls_in(clo)):
            found.append(kind)
    rep.check(R, 'key::key|check_depth-filter', found == ['try_map'], f'{found}', f'the depth check in key() is attached with {found or "no filter"}: the rejection has no message', facts.loc(b))


def _leaf(fn, t, what):
    return (fn.replace(pm.P, ''), what, t.get('l'))


def bare_failures(g):
    """{parser fn: (leaves whose failure can leave it as a Backtrack error without any context or cause, the same for Cut errors)}.
    winnow's ContextError renders to the empty string exactly when nothing on the way out of the failing parser called `.context(..)` and the error
    has no external cause (try_map / from_external_error).  Lookahead is followed: a parser chosen by `dispatch!{peek(any); ..}` cannot fail on the
    byte that selected it.  A hand-written loop returns an inner failure with `?`; repeat(0..) / opt swallow a Backtrack."""
    memo = {d: (frozenset(), frozenset()) for d in g.terms}

    def bare(t, fn, penv, depth=0, ahead=None):
        """(leaves whose failure leaves t as a Backtrack without any context or cause, the same for Cut)"""
        op = t['op']
        E = frozenset()
        if op == 'tok':
            mn = t['min'] if not isinstance(t['min'], tuple) else 1
            if not mn:
                return E, E
            if ahead is not None and mn == 1 and ahead <= t['set']:
                return E, E         # the byte was looked at before this parser was chosen
            return frozenset([_leaf(fn, t, t.get('kind') or 'token')]), E
        if op == 'lit':
            if ahead is not None and len(t['bytes']) == 1 and ahead <= frozenset(t['bytes'][:1]):
                return E, E
            return frozenset([_leaf(fn, t, 'literal ' + repr(bytes(t['bytes']))[1:])]), E
        if op in ('eof', 'fail', 'top'):
            return frozenset([_leaf(fn, t, op if op != 'top' else 'unmodelled: ' + str(t.get('why')))]), E
        if op == 'empty':
            return E, E
        if op == 'not':
            return frozenset([_leaf(fn, t, 'not(..)')]), bare(t['p'], fn, penv, depth)[1]
        if op == 'peek':
            return bare(t['p'], fn, penv, depth, ahead)
        if op == 'opt':
            return E, bare(t['p'], fn, penv, depth, ahead)[1]
        if op == 'rep':
            bb, bc = bare(t['p'], fn, penv, depth, ahead if t['min'] and t['min'] > 0 else None)
            if t.get('handloop'):
                return bb, bc       # a hand-written loop leaves through `break`; a failing step inside it is returned with `?`
            return (bb if t['min'] and t['min'] > 0 else E), bc
        if op == 'sep':
            bb, bc = bare(t['p'], fn, penv, depth)
            sb, sc = bare(t['sep'], fn, penv, depth)
            return (bb if t['min'] and t['min'] > 0 else E), bc | sc
        if op == 'seq':
            bb, bc = E, E
            cur = ahead
            for c in t['items']:
                x, y = bare(c, fn, penv, depth, cur)
                bb, bc = bb | x, bc | y
                if not (c['op'] in ('peek', 'not', 'empty') or (c['op'] == 'map' and c['p']['op'] == 'peek')):
                    cur = None
            return bb, bc
        if op == 'alt':
            node = t.get('node') or {}
            is_winnow_alt = node.get('k') == 'call' and last_seg((peel(node.get('f', {})).get('path') or '')) == 'alt'
            bb, bc = E, E
            for i, c in enumerate(t['items']):
                x, y = bare(c, fn, penv, depth, ahead)
                if not is_winnow_alt or i == len(t['items']) - 1:
                    bb = bb | x
                bc = bc | y
            return bb, bc
        if op == 'dispatch':
            bb, bc = E, E
            sc = t['scrut']
            peeked = False
            x0 = sc
            while x0.get('op') in ('map', 'opt', 'peek'):
                if x0['op'] == 'peek':
                    peeked = True
                x0 = x0['p']
            rows = g.dispatch_rows(t) if (peeked and x0.get('op') == 'tok' and (x0['min'], x0['max']) == (1, 1)) else None
            if rows is not None and all(r[0] is not None for r in rows):
                for sset, a in rows:
                    sub = sset if ahead is None else (sset & ahead)
                    if ahead is not None and not sub:
                        continue
                    x, y = bare(a['p'], fn, penv, depth, sub)
                    bb, bc = bb | x, bc | y
            else:
                for a in t['arms']:
                    x, y = bare(a['p'], fn, penv, depth)
                    bb, bc = bb | x, bc | y
            if not t.get('bound'):
                x, y = bare(t['scrut'], fn, penv, depth, ahead)
                bb, bc = bb | x, bc | y
            return bb, bc
        if op == 'checkrec':
            return bare(t['p'], fn, penv, depth, ahead)
        if op == 'and_then':
            x, y = bare(t['p'], fn, penv, depth, ahead)
            x2, y2 = bare(t['q'], fn, penv, depth)
            return x | x2, y | y2
        if op == 'map':
            k = t['kind']
            bb, bc = bare(t['p'], fn, penv, depth, ahead)
            if k == 'context':
                return E, E
            if k == 'cut':
                return E, bb | bc
            if k == 'backtrack':
                return bb | bc, E
            if k in ('verify', 'verify_map', 'parse_to'):
                return bb | frozenset([_leaf(fn, t, k)]), bc
            return bb, bc       # map / try_map (the external error is the cause) / span / value ...
        if op == 'param':
            if t['name'] in penv:
                return penv[t['name']]
            return frozenset([_leaf(fn, t, 'parser parameter ' + str(t['name']).split('#')[0])]), E
        if op == 'ref' and ahead is not None and depth < 6 and g.terms.get(t['fn']) is not None:
            return bare(g.terms[t['fn']], t['fn'], {}, depth + 1, ahead)
        if op == 'ref':
            return memo.get(t['fn'], (frozenset([_leaf(fn, t, 'unknown parser ' + t['fn'])]), E))
        if op == 'call':
            callee = g.terms.get(t['fn'])
            if callee is None or depth > 4:
                return memo.get(t['fn'], (frozenset([_leaf(fn, t, 'unknown parser ' + t['fn'])]), E))
            # parser-typed arguments stand for the callee's parser parameters
            b = g.facts.bodies.get(t['fn'])
            names = [p_['name'] for p_ in (b.get('params', []) if b else []) if p_.get('k') == 'p_bind']
            env2 = {}
            for nm, a in zip(names, t['args']):
                if a is not None:
                    env2[nm] = bare(a, fn, penv, depth)
            return bare(callee, t['fn'], env2, depth + 1, ahead)
        return frozenset([_leaf(fn, t, 'unmodelled term ' + op)]), E

    for _ in range(30):
        changed = False
        for d, t in g.terms.items():
            if t is None:
                continue
            v = bare(t, d, {})
            if v != memo[d]:
                memo[d] = v
                changed = True
        if not changed:
            break
    return memo


ENTRY_POINTS = (('document', 'toml_edit::parser::parse_document', 'document::document'), ('value', 'toml_edit::parser::parse_value', 'value::value'),
                ('key', 'toml_edit::parser::parse_key', 'key::simple_key'), ('key-path', 'toml_edit::parser::parse_key_path', 'key::key'))


def r7_nonempty_message(rep, facts):
    R = rep.rule('C15/R7', 'a parse error has a non-empty message: TomlError::new renders winnow\'s ContextError, which is empty unless some parser on the way out of the '
                 'failure attached a context or the error has a cause.  For each parse entry point, every token / literal / eof / verify whose failure can reach '
                 'the caller bare (through repeat / opt / alt / cut_err / dispatch, with lookahead followed) is reported', floor=4)
    from . import parsemodel as pm
    g = pm.model(facts)
    memo = bare_failures(g)
    for entry, fn, parser in ENTRY_POINTS:
        if not facts.has_body(fn):
            rep.incomplete(R, f'{entry}|entry', f'`{fn}` not found')
            continue
        b = facts.body(fn)
        uses = any(last_seg(c) == last_seg(parser) and pm.P + parser == strip_generics(c) for x in walk(b['body']) for c in ([x.get('path')] if x.get('k') == 'path' and x.get('res') in ('Fn', 'AssocFn') else []))
        term = g.terms.get(pm.P + parser)
        if not uses or term is None:
            rep.incomplete(R, f'{entry}|entry', f'`{fn}` no longer runs `{parser}` (or the parser is not modelled): the entry point table of this rule is out of date', facts.loc(b))
            continue
        bb, bc = memo[pm.P + parser]
        leaves = {}
        for (lf, what, line) in sorted(bb | bc, key=str):
            leaves.setdefault((lf, what), line)
        # Parser::parse demands the end of the input after the parser: a bare failure unless the parser itself ends in `eof`
        t = term
        while t.get('op') == 'map':
            t = t['p']
        ends_in_eof = t.get('op') == 'seq' and t['items'] and t['items'][-1].get('op') == 'eof'
        if not ends_in_eof:
            leaves[(parser, 'end of input demanded by Parser::parse')] = b.get('line')
        rep.ok(R, f'{entry}|entry', f'`{parser}`: {len(leaves)} bare failure points', facts.loc(b))
        for (lf, what), line in sorted(leaves.items(), key=str):
            fb = facts.bodies.get(pm.P + lf) or b
            rep.bad(R, f'{entry}|{lf}:{what}', f'`{fn}`: a failure of {what} in `{lf}` reaches the caller without any `.context(..)` or cause: the error message of such an input is the '
                    f'empty string', f"{facts.rel(fb.get('file'))}:{line}")


def r10_item_spans_only(rep, facts):
    """an error raised while decoding is located with the span the parser recorded for the key or item: the serde layer hands spans on, it does not make them"""
    R = rep.rule('C15/R10', 'the serde layer locates its errors with spans the parser recorded (`.span()` of a key, item or value, handed on unchanged): no function of '
                 'toml_edit::de builds a `Range<usize>` with a computed end point (arithmetic, a call, a literal) — a range computed there (from a decoded length, an offset, a min / max) is in the units '
                 'of the decoded text, not of the source, and ends inside a character or outside the token for quoted or escaped spellings '
                 '(private helpers are expanded at their uses, so a helper that computes the range is seen too)', floor=2)
    n_span = 0
    made = []
    for d, b in sorted(facts.bodies.items()):
        if not (d.startswith('toml_edit::de') or d.startswith('<toml_edit::de')) or '::test' in d or b.get('derived'):
            continue
        for n in walk(b['body']):
            if n.get('k') == 'mcall' and n.get('name') == 'span':
                n_span += 1
            if n.get('k') == 'struct' and (n.get('path') or '').startswith('core::ops::range::Range') and 'usize' in (n.get('t') or 'usize'):
                # `a.start..a.end` / `s..e` of values read as they are is the same span written out again; a computed end point is not
                computed = any(x.get('k') in ('binary', 'mcall', 'call', 'lit', 'unary', 'cast') for fld in n.get('fields', []) for x in walk(fld.get('e', {})))
                if computed:
                    made.append((d, facts.loc(b, n)))
    rep.check(R, 'toml_edit::de|span-sources', n_span >= 20, f'{n_span} `.span()` reads in toml_edit::de', f'only {n_span} `.span()` reads found in toml_edit::de: the query is broken')
    for d, loc in made:
        rep.bad(R, f'{d}|range-built', f'`{d}` builds a `Range<usize>` itself instead of handing on the span the parser recorded: the location of the error it is attached to '
                f'is computed in the serde layer (decoded lengths and source offsets do not agree for quoted, escaped or multi-byte spellings)', loc)
    if not made:
        rep.ok(R, 'toml_edit::de|no-range-built', 'no Range is constructed in toml_edit::de')


def rules(rep, facts):
    feats = set(facts.crates.get('toml_edit', {}).get('features', []))
    if 'toml_edit' not in facts.crates:
        return
    if 'serde' in feats:
        r1_span_attached(rep, facts)
        r2_keys(rep, facts)
        r10_item_spans_only(rep, facts)
        if 'parse' in feats:
            r2c_source_kept(rep, facts)
    if 'parse' in feats:
        r3_messages(rep, facts)
    r4_rendering(rep, facts)
    if 'parse' in feats:
        from .rules_c14 import r1_provenance
        r1_provenance(rep, facts)
        rep.relabel('C14/R1', 'C15/R5', 'the spans errors are located with exist and are well-formed: ')
        r6_depth_cause(rep, facts)
        r7_nonempty_message(rep, facts)
        # an error raised while decoding an editable document (no source text) is located by key path only: every span was dropped by despan
        from .rules_c14 import r2_despan
        r2_despan(rep, facts)
        rep.relabel('C14/R2', 'C15/R8', 'errors from a document without source text carry no stale range: ')
        from .rules_c14 import r9_header_span_kept
        r9_header_span_kept(rep, facts)
        rep.relabel('C14/R9', 'C15/R9', 'an error about a table is located at the table: ')


def run(tier):
    return run_property(PROP, tier, rules, configs_thorough=['default', 'perf', 'edit_parse', 'edit_parse_serde', 'edit_nodefault', 'toml_parse'])
