"""Rules decided by running the parser's semantic actions end to end in the evaluator (verif/eventdrive.py): model documents are taken through the closures of the
grammar rules, ParseState, despan and the printer of the current tree.  The oracles are the input text itself (C03: unedited documents print back byte for byte) and
Python's tomllib, an independent TOML 1.0 decoder (C09: the same documents are accepted and refused; the tree built equals the tree decoded)."""
import tomllib

from .den import Unanalysable, EvalPanic, VecObj
from .places import MapObj, deref, keyname
from .eventdrive import Pipeline, Refused

I, V = 'toml_edit::item::Item::', 'toml_edit::value::Value::'

# (name, text).  The subset the tokenizer of eventdrive.py covers: bare / quoted keys, integers, booleans, basic strings, headers, comments, blank lines.
ROUND_TRIP = [
    ('empty document', ''),
    ('white space and comments only', '  \n# c\n\n   # d\n'),
    ('key-value pairs with decor', '  k  =  true  \nn=1\n"q k" = "v" # c\n\tm\t=\t-7\t#\tt\n'),
    ('comments and blank lines', '# top\n\n# second\nx = 1\n\n\n# tail\n'),
    ('headers', '[a]\nx = 1\n\n[ b ] # c\ny = 2\n\n  [c]  \n'),
    ('sub-table before super-table', '[a.b]\nx = 1\n[ a ]\ny = 2\n'),
    ('sub-tables before a padded super-table, twice', '[ s.alpha ]\nip = 1\n[s. beta ]\nip = 2\n[  s  ] # shared\nk = 0\n[t.u]\n[t\t]\n'),
    ('padded dotted header paths', '[ a . b ]\nx = 1\n[ a . c ]\n[a .d . e]\n'),
    ('arrays of tables', '[[aot]]\nn = 1\n\n[[aot]]\nn = 2\n[aot.sub]\nz = 3\n[[aot]] # third\n'),
    ('array of tables below a header-implied table', '[[ p.bin ]]\nname = "a"\n[[ p.bin ]]\nname = "b"\n[ p ]\nv = 1\n'),
    ('dotted keys', 'a.b.c = 1\na.b.d = 2\n x . y = 3\nx .z = 4\n'),
    ('dotted keys inside a table', '[t]\na.b = 1\na.c = 2\nd = 3\n[t.u]\ne.f = "g"\n'),
    ('quoted keys', '"a b".\'c\' = 1\n[ "x y" . z ]\n\'k\' = true\n'),
    ('interleaved tables and arrays of tables', '[[a]]\n[a.b]\nx=1\n[[a]]\n[a.b]\nx=2\n[c]\n[[a]]\n'),
    ('super-table after several sub-tables', '[a.x]\n[a.y]\nq = 1\n[a]\nk = 1\n[a.z]\n'),
    ('arrays', 'a = [1, 2]\nb = [ 1 , "x" , ] # c\ne = []\nf = [ ]\nm = [\n  1, # one\n  2\n]\nn = [ [ 1 ], [ ], [[2]] ]\no = [\n  # only a comment\n]\n'),
    ('inline tables', 't = { a = 1, b.c = "x" }\ne = {}\nf = { }\nv = { a = { b = [ { c = 1 } ] } }\n"q k" = { \'x y\' . z = true }\n'),
    ('arrays of inline tables below a header', '[s]\npts = [ { x = 1, y = 2 }, { x = 3, y = 4 } ]\nr.q = [ true ]\n'),
    ('CRLF line endings', '# c\r\n\r\n[a] # h\r\nx = 1 # v\r\n  y  =  "s"\r\n\r\n[[b]]\r\nz = [\r\n  1, # one\r\n  2,\r\n]\r\nw = { k = [ ] }\r\nu = [\r\n 1\r\n]\r\ne = [\r\n]\r\nn = [ [\r\n # in\r\n] ,\r\n [ 1 ] ]\r\n[ d . c ]\r\n# tail\r\n'),
    ('mixed LF and CRLF line endings', 'a = 1\r\nb = 2\n[t]\r\n\nc = [ 1,\r\n 2 ]\n# end\r\n'),
    ('no final newline after a key-value pair', 'x = 1'),
    ('no final newline after a commented key-value pair', 'x = 1\ny = 2 # c'),
    ('no final newline after a header', 'x = 1\n[a]'),
    ('trailing comment without a newline', 'x = 1\n# end'),
    ('trailing white space without a newline', 'x = 1\n  '),
    ('repeated dotted prefix spelled with other spacing', 'a.b = 1\na .c = 2\n'),
    ('repeated header prefix spelled with other spacing', '[a.b]\n[a .c]\n'),
    ('array-of-tables headers spelled with different spacing', '[[ aot ]]\n[[aot]]\n'),
]

# (documents of class U1 — a dotted key that passes through a table existing only as the super-table of a longer header — are left out: the specification does not decide
# them, this implementation refuses them, the reference decoder accepts them; DESIGN.md 3.2)
VERDICTS = [
    ('x = 1\nx = 2\n', 'a key twice'),
    ('x = 1\n"x" = 2\n', 'a key twice, once quoted'),
    ('[a]\n[a]\n', 'a table header twice'),
    ('[a]\nx = 1\n[a]\ny = 2\n', 'a table header twice with content'),
    ('[a.b]\n[a]\n[a.b]\n', 'a sub-table header twice around its super-table'),
    ('a.b = 1\n[a]\n', 'a header for a table made by dotted keys'),
    ('[a]\nb.c = 1\n[a.b]\n', 'a header for a table made by dotted keys inside a table'),
    ('a = 1\n[a]\n', 'a header over a value'),
    ('a = 1\na.b = 2\n', 'a dotted key through a value'),
    ('a.b = 1\na = 2\n', 'a value over a dotted-key table'),
    ('a.b = 1\na.b.c = 2\n', 'a dotted key through a dotted value'),
    ('[a]\nb = 1\n[a.b]\n', 'a sub-table header over a value'),
    ('[[a]]\n[a]\n', 'a table header over an array of tables'),
    ('[a]\n[[a]]\n', 'an array header over a table'),
    ('a = 1\n[[a]]\n', 'an array header over a value'),
    ('[[a]]\nb = 1\n[[a.b]]\n', 'a nested array header over a value'),
    ('[[a.b]]\n[a]\nb.c = 1\n', 'a dotted key through an array of tables'),
    ('[a.b]\nc.x = 1\n[a]\nb.c.y = 2\n', 'a dotted key through a table defined by a header'),
    ('t = { a = 1, a = 2 }\n', 'a key twice in an inline table'),
    ('t = { a = {}, a.b = 1 }\n', 'a dotted key into an inline table written with braces'),
    ('t = { a = {}, a.b.c = 1 }\n', 'a longer dotted key through an empty inline table written with braces'),
    ('t = { a.b = {}, a.b.c.d = 1 }\n', 'a dotted key through an empty inline table below a dotted key'),
    ('t = { a.b = 1, a = 2 }\n', 'a value over a dotted-key table in an inline table'),
    ('t = { a.b = 1, a.b.c = 2 }\n', 'a dotted key through a value in an inline table'),
    ('t = { a.b = 1, a.c = 2, a.d.e = 3 }\n', 'dotted keys sharing a prefix in an inline table (valid)'),
    ('t = { a = { b = 1 } }\n[t.a]\n', 'a header into an inline table'),
    ('t = { a = 1 }\nt.b = 2\n', 'a dotted key into an inline table'),
    ('t = { a = 1 }\n[t]\n', 'a header over an inline table'),
    ('a = [ { b = 1 } ]\n[[a]]\n', 'an array header over an array value'),
    ('[t]\nu = { a = 1 }\n[t.u.v]\n', 'a header below an inline table'),
    ('t = { a = [ { b = 1 }, { b = 1 } ], c = {} }\n', 'the same key in two inline tables of an array (valid)'),
    ('[a]\nb.c = 1\n[a.b.x.y]\n[a.b.x]\n', 'a header for a table implied below a dotted-key table (valid)'),
    ('[a]\nb.c = 1\n[a.b.x.y]\nk = 1\n[a.b.x]\nk = 2\n', 'tables implied by a header below a dotted-key table, defined later (valid)'),
    ('a.b.c = 1\n[a.b.d]\n', 'a sub-table of a dotted-key table by header (valid)'),
    ('a.b = 1\n[a.x.y]\n[a.x]\n', 'a header path through a dotted-key table, its middle defined later (valid)'),
    ('[a.b.c.d]\n[a.b.c]\n[a.b]\n[a]\n[a.b.c.d.e]\n', 'a long header path defined from the inside out (valid)'),
    ('[a]\nb.c.d = 1\nb.c.e = 2\nb.f = 3\n[a.b.c.g]\n[a.b.h]\n', 'sub-tables below nested dotted-key tables (valid)'),
    ('[a]\nb.c.d = 1\n[a.b.c]\n', 'a header for a nested dotted-key table'),
    ('[a]\n[a.b]\n[a.c]\nb = 1\n', 'different sub-tables and keys (valid)'),
    ('[a.b]\n[a]\nx = 1\n[a.c]\n', 'super-table after sub-table (valid)'),
    ('[[a]]\n[a.b]\n[[a]]\n[a.b]\n', 'the same sub-table in two array elements (valid)'),
    ('a.b = 1\na.c = 2\n[d]\na.b = 1\n', 'the same dotted keys in two tables (valid)'),
    ('[a]\nb.c = 1\nb.d = 2\n[a.e]\n', 'dotted keys then a sibling sub-table (valid)'),
    ('[[a]]\nx = 1\n[[a]]\nx = 1\n', 'the same key in two array elements (valid)'),
    ('[a.b.c]\n[a.b]\n[a]\n', 'headers from the inside out (valid)'),
    ('[a]\n[a.b.c]\n[a.b]\n', 'a middle table after its sub-table (valid)'),
    ('[a.b]\n[a.b.c]\n[a]\nb.d = 1\n', 'a dotted key into a table defined by a header'),
    ('[[a]]\n[[a.b]]\n[a.b.c]\n[[a.b]]\n[a.b.c]\n', 'nested arrays of tables with sub-tables (valid)'),
]


def plain(item):
    """the plain tree of a modelled (despanned or not) item"""
    item = deref(item)
    if isinstance(item, tuple) and len(item) == 3 and item[0] == 'ctor':
        nm = item[1]
        if nm == I + 'Table':
            return plain_table(item[2][0])
        if nm == I + 'ArrayOfTables':
            vals = deref(deref(item[2][0])[2]['values'])
            return [plain(x) if not (isinstance(deref(x), tuple) and deref(x)[0] == 'struct') else plain_table(x) for x in vals.items]
        if nm == I + 'Value':
            return plain(item[2][0])
        if nm == V + 'Array':
            return [plain(x) for x in deref(deref(item[2][0])[2]['values']).items]
        if nm == V + 'InlineTable':
            return plain_table(item[2][0])
        if nm in (V + 'Integer', V + 'Boolean', V + 'String'):
            v = deref(deref(item[2][0])[2]['value'])
            return v
        if nm == I + 'None':
            return None
    raise Unanalysable(f'an item the comparison does not model: {item!r:.120}')


def plain_table(t):
    t = deref(t)
    out = {}
    for k, v in deref(t[2]['items']).pairs:
        pv = plain(v)
        if pv is not None or not (isinstance(deref(v), tuple) and deref(v)[1] == I + 'None'):
            out[keyname(k)] = pv
    return out


def expected_print(text):
    """the three normalisations of the property, for LF-only documents without a byte-order mark: a newline is added when the final key-value or header line has none"""
    text = text.replace('\r\n', '\n')          # (none of the model documents has a multi-line string)
    if not text or text.endswith('\n'):
        return text
    last = text.rsplit('\n', 1)[-1]
    if last.strip() and not last.lstrip().startswith('#'):
        return text + '\n'
    return text


def r_round_trip(rep, facts, rid='C03/R7'):
    R = rep.rule(rid, f'unedited documents print back byte for byte: {len(ROUND_TRIP)} model documents (decor around keys, `=`, values and inside header brackets; comments and blank lines before, '
                 'between and after; headers in every order — sub-table before super-table, padded dotted paths, arrays of tables with nested tables, interleaving; dotted keys; quoted keys; '
                 'a missing final newline) are taken through the semantic actions of the grammar rules, ParseState, ImDocument::into_mut and Display for DocumentMut of the current tree in the '
                 'evaluator; the printed text must equal the input (a newline added after a final key-value or header line) and decode, by Python\'s tomllib, to the same data', floor=20)
    for name, text in ROUND_TRIP:
        try:
            _, out = Pipeline(facts).printed(text)
        except Refused as ex:
            rep.bad(R, name, f'the valid model document `{name}` ({text!r:.120}) is refused: {ex}')
            continue
        except EvalPanic as ex:
            rep.bad(R, name, f'parsing and printing the model document `{name}` ({text!r:.120}) panics: {ex}')
            continue
        except (Unanalysable, TypeError, KeyError, IndexError, AttributeError, ValueError) as ex:
            rep.incomplete(R, name, f'cannot evaluate the parser and printer on the model document `{name}`: {type(ex).__name__}: {ex}')
            continue
        want = expected_print(text)
        try:
            same_data = tomllib.loads(out) == tomllib.loads(text)
        except tomllib.TOMLDecodeError as ex:
            rep.bad(R, name + '|data', f'the model document `{name}` ({text!r:.120}) prints as text that is not valid TOML ({ex}): {out!r:.200}')
            continue
        if not same_data:
            rep.bad(R, name + '|data', f'the model document `{name}` ({text!r:.120}) prints as {out!r:.200}, which decodes to other data')
        rep.check(R, name, out == want, f'{len(out)} bytes, identical', f'the unedited model document `{name}` {text!r:.160} prints as {out!r:.200}')


def r_verdicts(rep, facts, rid='C09/R10'):
    R = rep.rule(rid, f'the parser state accepts and refuses what the specification does, and builds the tree the text denotes: {len(VERDICTS) + len(ROUND_TRIP)} model documents (every way of '
                 'defining a name twice — keys, headers, dotted keys, arrays of tables, across and inside tables — next to the valid look-alikes) are taken through the semantic actions of '
                 'the grammar rules and ParseState of the current tree in the evaluator; the verdict and the tree must equal those of an independent TOML 1.0 decoder (Python\'s tomllib)', floor=40)
    for text, what in VERDICTS + [(t, n) for n, t in ROUND_TRIP]:
        key = what
        try:
            ref = tomllib.loads(text)
        except tomllib.TOMLDecodeError:
            ref = None
        try:
            doc = Pipeline(facts).document(text)
            got = plain(doc[2]['root'])
        except Refused:
            got = None
        except EvalPanic as ex:
            rep.bad(R, key, f'the parser state panics on {text!r:.120} ({what}): {ex}')
            continue
        except (Unanalysable, TypeError, KeyError, IndexError, AttributeError, ValueError) as ex:
            rep.incomplete(R, key, f'cannot evaluate the parser state on {text!r:.120} ({what}): {type(ex).__name__}: {ex}')
            continue
        if ref is None:
            rep.check(R, key, got is None, 'refused', f'{text!r:.160} ({what}) is invalid TOML but the parser state accepts it and builds {got!r:.160}')
        elif got is None:
            rep.bad(R, key, f'{text!r:.160} ({what}) is valid TOML but the parser state refuses it')
        else:
            rep.check(R, key, got == ref, 'accepted, same tree', f'{text!r:.160} ({what}) is built as {got!r:.200}; it denotes {ref!r:.200}')


STATEMENTS = ['[a]', '[a.b]', '[a.b.c]', '[[a]]', '[[a.b]]', 'a = 1', 'b = 1', 'a.b = 1', 'b.c = 1', 'b.c.y = 2', 'c.x = 1', '[b]', 'a = { b = 1 }', 'b = { c.y = 2 }']
_FACTS = None


def _verdict_of(text):
    """(reference verdict/tree, evaluated verdict/tree or an error string) for one document; runs in a worker process"""
    try:
        ref = tomllib.loads(text)
    except tomllib.TOMLDecodeError:
        ref = None
    try:
        doc = Pipeline(_FACTS).document(text)
        got = plain(doc[2]['root'])
    except Refused:
        got = None
    except EvalPanic as ex:
        return text, ref, f'panic: {ex}'
    except (Unanalysable, TypeError, KeyError, IndexError, AttributeError, ValueError) as ex:
        return text, ref, f'unanalysable: {type(ex).__name__}: {ex}'
    return text, ref, got


def r_verdict_space(rep, facts, rid='C09/R11', length=3, alphabet=8):
    """every document made of up to `length` statements from a fixed alphabet of headers, array headers, plain and dotted key-value pairs over the names a, b, c"""
    import itertools
    import multiprocessing
    global _FACTS
    stm = STATEMENTS[:alphabet]
    docs = [''.join(s + '\n' for s in seq) for n in range(1, length + 1) for seq in itertools.product(stm, repeat=n)]
    R = rep.rule(rid, f'the parser state agrees with the specification on a whole space of small documents: all {len(docs)} sequences of 1 to {length} statements from {stm} are taken through the '
                 'semantic actions of the grammar rules and ParseState of the current tree in the evaluator; each must be accepted or refused as an independent TOML 1.0 decoder (Python\'s tomllib) '
                 'does, and an accepted one must build the tree the decoder gives', floor=len(docs) // 2)
    _FACTS = facts
    try:
        import os as _os
        with multiprocessing.get_context('fork').Pool(2 if _os.environ.get('VERIF_FAST') else min(16, multiprocessing.cpu_count())) as pool:
            res = pool.map(_verdict_of, docs, chunksize=16)
    finally:
        _FACTS = None
    n_acc = n_ref = 0
    bad = 0
    for text, ref, got in res:
        key = text.replace('\n', ' / ').strip(' /')
        if isinstance(got, str):
            if got.startswith('panic'):
                rep.bad(R, key, f'the parser state panics on {text!r}: {got}')
            else:
                rep.incomplete(R, key, f'cannot evaluate the parser state on {text!r}: {got}')
            continue
        if ref is None and got is None:
            n_ref += 1
            rep.ok(R, key, 'refused')
        elif ref is not None and got == ref:
            n_acc += 1
            rep.ok(R, key, 'accepted, same tree')
        else:
            bad += 1
            if bad <= 12:
                rep.bad(R, key, f'{text!r} is ' + ('invalid TOML but accepted' if ref is None else 'valid TOML but refused' if got is None else f'built as {got!r:.160} but denotes {ref!r:.160}'))
            else:
                rep.bad(R, 'further documents', f'{bad} documents of the space get another verdict or tree than the specification gives')
    rep.info(R, f'{n_acc} documents accepted with the same tree, {n_ref} refused, as the reference decoder does')


def r_spans(rep, facts, rid='C14/R14', label='', editable_only=False):
    """the spans the parser leaves in the tree, read through /repo's own accessors, against the source text"""
    R = rep.rule(rid, 'spans point at the text of each item: the model documents are taken through the semantic actions of the grammar rules and ParseState in the evaluator, then Key::span, '
                 'Item::span (values, tables, arrays of tables) of the current tree are evaluated on everything in the tree: every span lies inside the document with start <= end, a child\'s '
                 'span lies inside its parent table\'s, the slice of a key reads back (Python\'s tomllib) as that key and the slice of a value as that value, a table\'s span begins at its '
                 'header; after ImDocument::into_mut every span is gone', floor=20)
    OK_ = 'core::option::Option::Some'

    def span_of(p, fn, v):
        r = deref(p.fn(fn, v))
        if isinstance(r, tuple) and len(r) == 3 and r[1] == OK_:
            a = deref(r[2][0])
            return (a[1], a[2] + 1)
        return None
    for name, text in ROUND_TRIP:
        try:
            p = Pipeline(facts)
            doc = p.document(text)
            bad = []
            n = [0]

            def walk_value(val, pspan, where):
                """the elements of an array and the entries of an inline table: each span inside the container's, each slice reads back as the element"""
                val = deref(val)
                if not (isinstance(val, tuple) and len(val) == 3 and val[0] == 'ctor'):
                    return
                if val[1] == V + 'Array':
                    for i, el in enumerate(deref(deref(val[2][0])[2]['values']).items):
                        check_inner(el, pspan, f'{where}[{i}]')
                elif val[1] == V + 'InlineTable':
                    for k, el in deref(deref(val[2][0])[2]['items']).pairs:
                        kn = keyname(k)
                        ks = span_of(p, 'toml_edit::key::Key::span', k)
                        if ks is None or not (pspan[0] <= ks[0] <= ks[1] <= pspan[1]):
                            bad.append(f'{where}.{kn}: the key span {ks} is not inside the inline table\'s span {pspan}')
                        else:
                            try:
                                if tomllib.loads(text[ks[0]:ks[1]] + ' = 1') != {kn: 1}:
                                    bad.append(f'{where}.{kn}: the key span {ks} covers {text[ks[0]:ks[1]]!r}')
                            except tomllib.TOMLDecodeError:
                                bad.append(f'{where}.{kn}: the key span {ks} covers {text[ks[0]:ks[1]]!r}, which is not a key')
                        dv_ = deref(el)
                        if dv_[1] == I + 'Table':          # a dotted key inside the inline table
                            inner_t = deref(dv_[2][0])
                            walk_value(('ctor', V + 'InlineTable', (('struct', 'x', {'items': inner_t[2]['items']}),)), pspan, f'{where}.{kn}')
                        else:
                            check_inner(el, pspan, f'{where}.{kn}')

            def check_inner(el, pspan, where):
                n[0] += 1
                es = span_of(p, 'toml_edit::item::Item::span', el)
                if es is None:
                    dv0 = deref(el)
                    inner0 = deref(dv0[2][0]) if dv0[1] == I + 'Value' else None
                    if inner0 is not None and inner0[1] == V + 'InlineTable' and deref(inner0[2][0])[2].get('implicit'):
                        walk_value(inner0, pspan, where)          # a table implied by a dotted key inside an inline table has no text of its own
                        return
                    bad.append(f'{where}: the element has no span')
                    return
                if not (pspan[0] <= es[0] <= es[1] <= pspan[1]):
                    bad.append(f'{where}: the span {es} is outside the span {pspan} of the container')
                try:
                    if tomllib.loads('v = ' + text[es[0]:es[1]]) != {'v': plain(el)}:
                        bad.append(f'{where}: the span {es} covers {text[es[0]:es[1]]!r}')
                except tomllib.TOMLDecodeError:
                    bad.append(f'{where}: the span {es} covers {text[es[0]:es[1]]!r}, which is not a value')
                dv_ = deref(el)
                if dv_[1] == I + 'Value':
                    walk_value(deref(dv_[2][0]), es, where)

            def walk_table(t, parent, path):
                for k, v in deref(t[2]['items']).pairs:
                    kn = keyname(k)
                    here = path + [kn]
                    ks = span_of(p, 'toml_edit::key::Key::span', k)
                    vs = span_of(p, 'toml_edit::item::Item::span', v)
                    dv = deref(v)
                    kind = dv[1].rsplit('::', 1)[-1]
                    n[0] += 1
                    for what, s in (('key', ks), (kind, vs)):
                        if s is None:
                            # (a table that no header and no key-value pair of its own defines — implied by a longer header or a dotted key — has no text of its own)
                            if not (what == 'Table' and deref(dv[2][0])[2].get('implicit')) and what != 'None':
                                bad.append(f'{".".join(here)}: the {what} has no span')
                            continue
                        if not (0 <= s[0] <= s[1] <= len(text)):
                            bad.append(f'{".".join(here)}: the span {s} of the {what} is not a range of the document')
                    if ks:
                        try:
                            if tomllib.loads(text[ks[0]:ks[1]] + ' = 1') != {kn: 1}:
                                bad.append(f'{".".join(here)}: the key span {ks} covers {text[ks[0]:ks[1]]!r}')
                        except tomllib.TOMLDecodeError:
                            bad.append(f'{".".join(here)}: the key span {ks} covers {text[ks[0]:ks[1]]!r}, which is not a key')
                    if kind == 'Value' and vs:
                        try:
                            if tomllib.loads('v = ' + text[vs[0]:vs[1]]) != {'v': plain(v)}:
                                bad.append(f'{".".join(here)}: the value span {vs} covers {text[vs[0]:vs[1]]!r}')
                        except tomllib.TOMLDecodeError:
                            bad.append(f'{".".join(here)}: the value span {vs} covers {text[vs[0]:vs[1]]!r}, which is not a value')
                        if parent and not (parent[0] <= vs[0] and vs[1] <= parent[1]):
                            bad.append(f'{".".join(here)}: the value span {vs} is outside its table\'s span {parent}')
                        walk_value(deref(dv[2][0]), vs, '.'.join(here))
                    if kind == 'Table':
                        tb = deref(dv[2][0])
                        if vs and not tb[2].get('dotted') and not text[vs[0]:].startswith('['):
                            bad.append(f'{".".join(here)}: the table span {vs} does not begin at a header ({text[vs[0]:vs[0] + 8]!r})')
                        walk_table(tb, vs if vs and not tb[2].get('dotted') else parent, here)
                    if kind == 'ArrayOfTables':
                        for i, el in enumerate(deref(deref(dv[2][0])[2]['values']).items):
                            es = span_of(p, 'toml_edit::item::Item::span', el)
                            el = deref(el)
                            el = deref(el[2][0]) if el[0] == 'ctor' else el
                            if es is None or not text[es[0]:].startswith('[['):
                                bad.append(f'{".".join(here)}[{i}]: the element span {es} does not begin at its [[header]]')
                            if es and vs and not (vs[0] <= es[0] and es[1] <= vs[1]):
                                bad.append(f'{".".join(here)}[{i}]: the element span {es} is outside the array\'s span {vs}')
                            walk_table(el, es, here + [str(i)])
            root = deref(doc[2]['root'])
            walk_table(deref(root[2][0]), None, [])
            # made editable: no span survives
            im = [d for d in facts.bodies if d.startswith('toml_edit::document::ImDocument') and d.endswith('::into_mut')]
            dm = p.fn(im[0], doc)
            stale = []

            def walk_gone(t, path):
                if span_of(p, 'toml_edit::table::Table::span', t) is not None:
                    stale.append('.'.join(path) or '<root>')
                for k, v in deref(t[2]['items']).pairs:
                    here = path + [keyname(k)]
                    if span_of(p, 'toml_edit::key::Key::span', k) is not None or span_of(p, 'toml_edit::item::Item::span', v) is not None:
                        stale.append('.'.join(here))
                    dv = deref(v)
                    if dv[1].endswith('::Table'):
                        walk_gone(deref(dv[2][0]), here)
                    if dv[1].endswith('::ArrayOfTables'):
                        for i, el in enumerate(deref(deref(dv[2][0])[2]['values']).items):
                            el = deref(el)
                            walk_gone(deref(el[2][0]) if el[0] == 'ctor' else el, here + [str(i)])
            walk_gone(deref(deref(dm[2]['root'])[2][0]), [])
        except Refused as ex:
            rep.bad(R, name, f'the valid model document `{name}` is refused: {ex}')
            continue
        except EvalPanic as ex:
            rep.bad(R, name, f'reading the spans of the model document `{name}` panics: {ex}')
            continue
        except (Unanalysable, TypeError, KeyError, IndexError, AttributeError, ValueError) as ex:
            rep.incomplete(R, name, f'cannot evaluate the spans of the model document `{name}`: {type(ex).__name__}: {ex}')
            continue
        if not editable_only:
            rep.check(R, label + name, not bad, f'{n[0]} entries', f'in the model document `{name}` ({text!r:.100}): ' + '; '.join(bad[:3]))
        rep.check(R, label + name + '|editable', not stale, 'no span left after into_mut',
                  f'after ImDocument::into_mut of the model document `{name}` a span is still reported for {stale[:4]}' + (f' (configuration {label.strip("| ")})' if label else ''))


EDIT_DOC = ('# head\n'
            'a = 1 # ca\n'
            'b = "two"   # cb\n'
            '\n'
            '[t]   # ct\n'
            'x = 1\n'
            '  y  =  2  # cy\n'
            'z.w = true\n'
            '\n'
            '[[arr]]\n'
            'n = 1 # first\n'
            '[[arr]]\n'
            'n = 2 # second\n'
            '\n'
            '[ u . v ]\n'
            'k = "v"\n'
            '# tail\n')


def r_edits(rep, facts, rid='C08/R10'):
    """a parsed document is edited through the public API in the evaluator and printed: the data changes as asked, the untouched lines stay verbatim"""
    import copy
    R = rep.rule(rid, 'an edit changes what was asked and nothing else: a model document (comments, odd spacing, a table, dotted keys, an array of tables, a padded dotted header) is taken '
                 'through the parser\'s semantic actions and ImDocument::into_mut in the evaluator, edited by evaluating one public operation of the current tree (Table::remove / insert of '
                 'a new and of an existing key / clear / sort_values, at the root and in a sub-table, removal of a whole table and of an array of tables, ArrayOfTables::remove), and printed '
                 'by evaluating Display for DocumentMut: the text must decode (Python\'s tomllib) to the original data with the same edit applied to a plain ordered tree, and every source '
                 'line that belongs to an untouched entry must still be there verbatim', floor=10)
    T_ = 'toml_edit::table::Table::'
    ref0 = tomllib.loads(EDIT_DOC)

    def item(p, n):
        return ('ctor', I + 'Value', (p.fn("<toml_edit::value::Value as core::convert::From<i64>>::from", n),))

    def sub(root, *names):
        t = root
        for nm in names:
            m = deref(t[2]['items'])
            it = deref(m.pairs[m.find(nm)][1])
            t = deref(it[2][0])
        return t

    def ed_remove(key, *path):
        def run(p, root):
            p.fn(T_ + 'remove', sub(root, *path), key)

        def ref(d):
            t = d
            for nm in path:
                t = t[nm]
            del t[key]
        return run, ref

    def ed_insert(key, val, *path):
        def run(p, root):
            p.fn(T_ + 'insert', sub(root, *path), key, item(p, val))

        def ref(d):
            t = d
            for nm in path:
                t = t[nm]
            t[key] = val
        return run, ref

    def ed_clear(*path):
        return (lambda p, root: p.fn(T_ + 'clear', sub(root, *path))), (lambda d: sub_ref(d, path).clear())

    def sub_ref(d, path):
        for nm in path:
            d = d[nm]
        return d

    def ed_sort(*path):
        def ref(d):
            t = sub_ref(d, path)
            items = sorted(t.items())
            t.clear()
            t.update(items)
        return (lambda p, root: p.fn(T_ + 'sort_values', sub(root, *path))), ref

    def ed_aot_remove(i):
        def run(p, root):
            m = deref(root[2]['items'])
            a = deref(deref(m.pairs[m.find('arr')][1])[2][0])
            p.fn('toml_edit::array_of_tables::ArrayOfTables::remove', a, i)
        return run, (lambda d: d['arr'].pop(i))
    LINES = EDIT_DOC.splitlines()
    # (label, edit, lines of the source that the edit may touch)
    edits = [('remove `a` at the root', ed_remove('a'), ['# head', 'a = 1 # ca']),          # (the comment above an entry is part of the entry)
             ('remove `x` in [t]', ed_remove('x', 't'), ['x = 1']),
             ('remove the dotted `z` in [t]', ed_remove('z', 't'), ['z.w = true']),
             ('insert a new key at the root', ed_insert('c', 3), []),
             ('insert over the existing key `b`', ed_insert('b', 9), ['b = "two"   # cb']),
             ('insert a new key in [t]', ed_insert('q', 7, 't'), []),
             ('insert over the existing key `y` in [t]', ed_insert('y', 8, 't'), ['  y  =  2  # cy']),
             ('remove the table `t`', ed_remove('t'), ['[t]   # ct', 'x = 1', '  y  =  2  # cy', 'z.w = true', '']),
             ('remove the array of tables', ed_remove('arr'), ['[[arr]]', 'n = 1 # first', 'n = 2 # second', '']),
             ('remove the first element of the array of tables', ed_aot_remove(0), ['[[arr]]', 'n = 1 # first', '']),
             ('remove the second element of the array of tables', ed_aot_remove(1), ['[[arr]]', 'n = 2 # second', '']),
             ('clear [t]', ed_clear('t'), ['x = 1', '  y  =  2  # cy', 'z.w = true', '']),
             ('sort the values of [t]', ed_sort('t'), []),
             ('sort the values of the root', ed_sort(), []),
             ('remove `k` below the padded header', ed_remove('k', 'u', 'v'), ['k = "v"'])]
    for label, (run, refedit), touched in edits:
        try:
            p = Pipeline(facts)
            doc = p.document(EDIT_DOC)
            im = [d for d in facts.bodies if d.startswith('toml_edit::document::ImDocument') and d.endswith('::into_mut')]
            dm = p.fn(im[0], doc)
            root = deref(deref(dm[2]['root'])[2][0])
            run(p, root)
            disp = facts.method('core::fmt::Display', 'toml_edit::document::DocumentMut', 'fmt')
            n0 = len(p.it.calls)
            p.it.apply_fn(facts.body(disp), [dm, ('formatter',)])
            out = p.it.text(n0)
        except Refused as ex:
            rep.bad(R, label, f'the model document is refused: {ex}')
            continue
        except EvalPanic as ex:
            rep.bad(R, label, f'{label}: the operation or the printer panics: {ex}')
            continue
        except (Unanalysable, TypeError, KeyError, IndexError, AttributeError, ValueError) as ex:
            rep.incomplete(R, label, f'cannot evaluate `{label}` on the model document: {type(ex).__name__}: {ex}')
            continue
        want = copy.deepcopy(ref0)
        refedit(want)
        try:
            got = tomllib.loads(out)
        except tomllib.TOMLDecodeError as ex:
            rep.bad(R, label, f'after `{label}` the document prints as text that is not valid TOML ({ex}): {out!r:.300}')
            continue
        from .rules_print import ordered
        # (sections keep their place in the text: a new root value is printed before them, and sorting the root's values does not move them)
        if got != want or (ordered(got) != ordered(want) and not label.startswith('insert a new key at the root') and label != 'sort the values of the root'):
            rep.bad(R, label, f'after `{label}` the document prints as {out!r:.300}, which decodes to {got!r:.200}; the edit on a plain ordered tree gives {want!r:.200}')
            continue
        outl = out.splitlines()
        lost = [l for l in LINES if l not in touched and l.strip() and l not in outl and not (l.startswith('[[') and '[[arr]]' in touched)]
        rep.check(R, label, not lost, f'{len(out)} bytes, data as edited, {len([l for l in LINES if l.strip()]) - len(touched)} untouched lines verbatim',
                  f'after `{label}` the source line(s) {lost[:3]} of untouched entries are no longer in the printed text {out!r:.300}')


EDIT_DOC2 = ('title = "x" # t\n'
             'arr = [ 1, 2 ,  3 ] # a\n'
             'multi = [\n'
             '  "a", # first\n'
             '  "b",\n'
             ']\n'
             'it = { k = 1, m = { n = 2 } } # i\n'
             '\n'
             '[s] # sec\n'
             'pts = [ { x = 1 }, { x = 2 } ]\n'
             'last = true\n')


def r_value_edits(rep, facts, rid='C08/R11'):
    """arrays and inline tables of a parsed document edited through the public API in the evaluator"""
    import copy
    R = rep.rule(rid, 'an edit inside a value changes what was asked and nothing else: a model document holding a one-line array, a multi-line array with comments, a nested inline table and an '
                 'array of inline tables below a header is parsed and made editable in the evaluator, one operation of Array / InlineTable of the current tree is evaluated on it (push, insert, '
                 'remove, replace, clear, retain-like removal; insert, remove of an inline-table entry; at the root and below the header), and the document is printed: the text must decode '
                 '(Python\'s tomllib) to the original data with the same edit applied to plain lists and dicts, every source line of an untouched entry must still be there verbatim, and a '
                 'replaced array element keeps the comment that stood next to it', floor=9)
    A_, IT_ = 'toml_edit::array::Array::', 'toml_edit::inline_table::InlineTable::'
    ref0 = tomllib.loads(EDIT_DOC2)
    ival = lambda p, n: p.fn("<toml_edit::value::Value as core::convert::From<i64>>::from", n)

    def value_at(root, *path):
        """the Array / InlineTable struct stored under the key path"""
        cur = root
        for nm in path:
            m = deref(cur[2]['items'])
            it = deref(m.pairs[m.find(nm)][1])
            cur = deref(it[2][0])
            if isinstance(cur, tuple) and cur[0] == 'ctor' and cur[1].startswith(V):
                cur = deref(cur[2][0])
        return cur

    def at(d, path):
        for nm in path:
            d = d[nm]
        return d
    edits = [
        ('push onto the one-line array', lambda p, r: p.fn(A_ + 'push', value_at(r, 'arr'), ival(p, 4)), lambda d: d['arr'].append(4), ['arr = [ 1, 2 ,  3 ] # a'], None),
        ('insert into the one-line array', lambda p, r: p.fn(A_ + 'insert', value_at(r, 'arr'), 1, ival(p, 9)), lambda d: d['arr'].insert(1, 9), ['arr = [ 1, 2 ,  3 ] # a'], None),
        ('remove the first element of the one-line array', lambda p, r: p.fn(A_ + 'remove', value_at(r, 'arr'), 0), lambda d: d['arr'].pop(0), ['arr = [ 1, 2 ,  3 ] # a'], None),
        ('replace the first element of the multi-line array', lambda p, r: p.fn(A_ + 'replace', value_at(r, 'multi'), 0, ival(p, 7)), lambda d: d['multi'].__setitem__(0, 7), ['  "a", # first'], '  7, # first'),
        ('remove the last element of the multi-line array', lambda p, r: p.fn(A_ + 'remove', value_at(r, 'multi'), 1), lambda d: d['multi'].pop(1), ['  "a", # first', '  "b",'], None),          # (a comment after the comma belongs to the element that follows it)
        ('clear the multi-line array', lambda p, r: p.fn(A_ + 'clear', value_at(r, 'multi')), lambda d: d['multi'].clear(), ['multi = [', '  "a", # first', '  "b",', ']'], None),
        ('insert into the inline table', lambda p, r: p.fn(IT_ + 'insert', value_at(r, 'it'), 'q', ival(p, 5)), lambda d: d['it'].__setitem__('q', 5), ['it = { k = 1, m = { n = 2 } } # i'], None),
        ('remove from the inline table', lambda p, r: p.fn(IT_ + 'remove', value_at(r, 'it'), 'k'), lambda d: d['it'].pop('k'), ['it = { k = 1, m = { n = 2 } } # i'], None),
        ('remove from the nested inline table', lambda p, r: p.fn(IT_ + 'remove', value_at(r, 'it', 'm'), 'n'), lambda d: d['it']['m'].pop('n'), ['it = { k = 1, m = { n = 2 } } # i'], None),
        ('remove an inline table from the array below the header', lambda p, r: p.fn(A_ + 'remove', value_at(r, 's', 'pts'), 0), lambda d: d['s']['pts'].pop(0), ['pts = [ { x = 1 }, { x = 2 } ]'], None),
        ('push onto the array below the header', lambda p, r: p.fn(A_ + 'push', value_at(r, 's', 'pts'), ival(p, 3)), lambda d: d['s']['pts'].append(3), ['pts = [ { x = 1 }, { x = 2 } ]'], None),
    ]
    LINES = EDIT_DOC2.splitlines()
    for label, run, refedit, touched, must_have in edits:
        try:
            p = Pipeline(facts)
            doc = p.document(EDIT_DOC2)
            im = [d for d in facts.bodies if d.startswith('toml_edit::document::ImDocument') and d.endswith('::into_mut')]
            dm = p.fn(im[0], doc)
            root = deref(deref(dm[2]['root'])[2][0])
            run(p, root)
            disp = facts.method('core::fmt::Display', 'toml_edit::document::DocumentMut', 'fmt')
            n0 = len(p.it.calls)
            p.it.apply_fn(facts.body(disp), [dm, ('formatter',)])
            out = p.it.text(n0)
        except Refused as ex:
            rep.bad(R, label, f'the model document is refused: {ex}')
            continue
        except EvalPanic as ex:
            rep.bad(R, label, f'{label}: the operation or the printer panics: {ex}')
            continue
        except (Unanalysable, TypeError, KeyError, IndexError, AttributeError, ValueError) as ex:
            rep.incomplete(R, label, f'cannot evaluate `{label}` on the model document: {type(ex).__name__}: {ex}')
            continue
        want = copy.deepcopy(ref0)
        refedit(want)
        try:
            got = tomllib.loads(out)
        except tomllib.TOMLDecodeError as ex:
            rep.bad(R, label, f'after `{label}` the document prints as text that is not valid TOML ({ex}): {out!r:.300}')
            continue
        from .rules_print import ordered
        if got != want or ordered(got) != ordered(want):
            rep.bad(R, label, f'after `{label}` the document prints as {out!r:.300}, which decodes to {got!r:.200}; the edit on plain lists and dicts gives {want!r:.200}')
            continue
        outl = out.splitlines()
        lost = [l for l in LINES if l not in touched and l.strip() and l not in outl]
        if must_have is not None and must_have not in outl:
            lost.append(f'(expected line {must_have!r})')
        rep.check(R, label, not lost, f'{len(out)} bytes, data as edited, untouched lines verbatim',
                  f'after `{label}` the line(s) {lost[:3]} are not in the printed text {out!r:.300}')
