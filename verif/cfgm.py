"""CFG analyses over the MIR summaries (built with -Zmir-opt-level=0): reachability,
dominators, must-pass-through on non-error paths, ordering of call families."""
from .core import AnalysisIncomplete, last_seg, strip_generics


class Cfg:
    def __init__(self, mirbody):
        self.m = mirbody
        self.blocks = mirbody['blocks']
        self.n = len(self.blocks)
        self.succ = [[s for s in b['succ'] if not self.blocks[s].get('c')] for b in self.blocks]
        self.live = [not b.get('c') for b in self.blocks]
        self.pred = [[] for _ in range(self.n)]
        for i, ss in enumerate(self.succ):
            if self.live[i]:
                for s in ss:
                    self.pred[s].append(i)
        self._dom = None

    def names(self, i):
        t = self.blocks[i]['term']
        if t.get('k') not in ('call', 'tailcall'):
            return []
        return [x for x in (t.get('resolved'), t.get('callee')) if x]

    def calls(self, pred):
        """blocks whose terminator is a call with a name satisfying pred(name)"""
        return [i for i in range(self.n) if self.live[i] and any(pred(n) for n in self.names(i))]

    def calls_seg(self, *segs):
        return self.calls(lambda n: last_seg(n) in segs)

    def is_error_block(self, i):
        """`?` propagation: the block that builds the residual for an early return"""
        return any(last_seg(n) == 'from_residual' for n in self.names(i))

    def returns(self):
        return [i for i in range(self.n) if self.live[i] and self.blocks[i]['term'].get('k') == 'return']

    def reach(self, srcs, avoid=()):
        avoid = set(avoid)
        seen = set()
        stack = [s for s in srcs if s not in avoid]
        while stack:
            x = stack.pop()
            if x in seen:
                continue
            seen.add(x)
            for y in self.succ[x]:
                if y not in avoid and y not in seen:
                    stack.append(y)
        return seen

    def reach_from_succ(self, srcs, avoid=()):
        """blocks reachable from the successors of srcs (strictly after)"""
        nxt = set()
        for s in srcs:
            nxt.update(self.succ[s])
        return self.reach(nxt, avoid)

    def dominators(self):
        if self._dom is not None:
            return self._dom
        live = [i for i in range(self.n) if self.live[i]]
        reach = self.reach([0])
        allb = set(reach)
        dom = {i: set(allb) for i in reach}
        dom[0] = {0}
        changed = True
        while changed:
            changed = False
            for i in sorted(reach):
                if i == 0:
                    continue
                ps = [p for p in self.pred[i] if p in reach]
                new = set(allb)
                for p in ps:
                    new &= dom[p]
                new.add(i)
                if new != dom[i]:
                    dom[i] = new
                    changed = True
        self._dom = dom
        return dom

    def dominates(self, a, b):
        d = self.dominators()
        return b in d and a in d[b]

    def never_after(self, xs, ys):
        """no path leads from a Y block to an X block (Y is never followed by X)"""
        if not xs or not ys:
            return False
        r = self.reach_from_succ(ys)
        return not (set(xs) & r)

    def must_pass(self, xs, normal_only=True):
        """every path entry -> return passes through a block of xs (error-propagation
        paths excluded when normal_only)"""
        avoid = set(xs)
        if normal_only:
            avoid |= {i for i in range(self.n) if self.live[i] and self.is_error_block(i)}
        r = self.reach([0], avoid)
        return not (set(self.returns()) & r) and 0 not in set(xs) or (0 in set(xs))

    def loops_containing(self, b):
        out = []
        for (t, h) in self.back_edges():
            body = self.loop_body(t, h)
            if b in body:
                out.append((h, body))
        out.sort(key=lambda x: len(x[1]))
        return out

    def guarded_by(self, xs, y):
        """every path reaching y passes through a block of xs first — counted per iteration when y sits in a
        loop (paths start at the innermost loop head), from the entry otherwise"""
        xs = set(xs)
        if y in xs:
            return True
        loops = [(h, body) for (h, body) in self.loops_containing(y) if xs & body]
        if loops:
            h, body = loops[0]
            if h in xs:
                return True
            seen = set()
            stack = [h]
            while stack:
                x = stack.pop()
                if x in seen or x in xs or x not in body:
                    continue
                seen.add(x)
                if x == y and x != h:
                    return False
                for s in self.succ[x]:
                    if s == h:
                        continue
                    stack.append(s)
            return y not in seen or y == h
        return y not in self.reach([0], xs)

    def same_loop(self, a, b):
        la = {h for h, _ in self.loops_containing(a)}
        lb = {h for h, _ in self.loops_containing(b)}
        return bool(la & lb)

    def back_edges(self):
        d = self.dominators()
        out = []
        for i in d:
            for s in self.succ[i]:
                if s in d[i]:
                    out.append((i, s))
        return out

    def loop_body(self, tail, head):
        """natural loop of back edge tail->head"""
        body = {head, tail}
        stack = [tail]
        while stack:
            x = stack.pop()
            for p in self.pred[x]:
                if p not in body:
                    body.add(p)
                    stack.append(p)
        return body


def cfg_of(facts, name):
    # a function whose whole body is one call of a new private helper (twin functions merged into a shared helper): the code the
    # rule is about lives in the helper now
    seen = set()
    while name in getattr(facts, 'delegates', {}) and name not in seen:
        seen.add(name)
        name = facts.delegates[name]
    m = facts.mir.get(name)
    if m is None:
        raise AnalysisIncomplete(f'anchor `{name}` has no MIR in configuration `{facts.config}`')
    return Cfg(m)
