"""C13 — every decoding and encoding route gives the same answer (decided part:
wrapper completeness, the date-time tunnel and None policy in every twin, twin enum access,
twin map-insert policy, one parser)."""
from .core import run_property, AnalysisIncomplete, walk, peel, last_seg, calls_in, callee_all, strip_generics
from . import serdemodel as sm

PROP = 'C13'
DE = 'serde::de::Deserializer'


def de_impls(facts):
    out = {}
    for imp in facts.impls:
        if imp.get('trait') == DE:
            ex = {}
            for it in imp['items']:
                if it['kind'] != 'AssocFn' or not facts.has_body(it['def']):
                    continue
                b = facts.body(it['def'])
                if not b.get('x'):
                    ex[it['name']] = it['def']
            out[imp['self_ty']] = ex
    return out


WRAPPERS = [
    # (outer, inner, why)
    ("toml::de::Deserializer<'_>", 'toml_edit::de::Deserializer<S>', 'toml::de::Deserializer wraps toml_edit::de::Deserializer'),
    ("toml::de::ValueDeserializer<'_>", 'toml_edit::de::value::ValueDeserializer', 'toml::de::ValueDeserializer wraps toml_edit\'s'),
    ('toml::map::Map<alloc::string::String, toml::value::Value>', 'toml::value::Value', 'toml::Table is wrapped around toml::Value'),
    ('toml_edit::de::Deserializer<S>', 'toml_edit::de::value::ValueDeserializer', 'the document deserializer hands over to the value deserializer'),
]
SUPERSETS = [
    ('toml_edit::de::value::ValueDeserializer', ['toml_edit::de::table::TableDeserializer', 'toml_edit::de::array::ArrayDeserializer'],
     'a value may be a table or an array, so every specialised method of those must be specialised (not forwarded to deserialize_any) by the value deserializer'),
]


def r1_wrappers(rep, facts):
    R = rep.rule('C13/R1', 'wrapper completeness: every serde::Deserializer method a wrapped deserializer specialises is specialised by its wrapper '
                 'and forwarded to the same-named inner method (a method left to forward_to_deserialize_any changes the answer of that route)', floor=20)
    impls = de_impls(facts)
    for outer, inner, why in WRAPPERS:
        if outer not in impls or inner not in impls:
            gated = (outer.startswith('toml::de::') and not facts.has_body('toml::de::from_str')) or \
                (inner.startswith('toml_edit::') and 'toml_edit' not in facts.crates) or \
                ('serde' not in set(facts.crates.get('toml_edit', {}).get('features', ['serde'])))
            if not gated and outer.split('::')[0] in facts.crates and inner.split('::')[0] in facts.crates:
                rep.incomplete(R, f'{outer}|present', f'impl Deserializer for {outer} / {inner} not found')
            continue
        for m in sorted(impls[inner]):
            d = impls[outer].get(m)
            if d is None:
                rep.bad(R, f'{outer}|{m}', f'`{inner}` specialises `{m}` but its wrapper `{outer}` leaves it to forward_to_deserialize_any ({why}): decoding through '
                        f'`{outer}` then answers differently (e.g. enums / options / newtypes are presented as maps)')
                continue
            b = facts.body(d)
            fwd = [n for n in walk(b['body']) if n.get('k') == 'mcall' and n.get('name') == m]
            # ... on the deserializer it wraps, not on another one of the same crate (a document deserializer where a value is expected)
            inner_base = strip_generics(inner)
            on_inner = [n for n in fwd if any(strip_generics(c).startswith('<' + inner_base) or inner_base in strip_generics(c).split(' as ')[0] for c in callee_all(n))
                        or inner_base in strip_generics((peel(n['recv']).get('t') or ''))]
            rep.check(R, f'{outer}|{m}', len(fwd) >= 1 and len(on_inner) == len(fwd), f'forwards to inner.{m}',
                      f'`{outer}::{m}` does not call `{m}` of the deserializer it wraps (`{inner}`)' + ('' if not fwd else f': it forwards to {sorted(set(c for n in fwd for c in callee_all(n)))[:2]}'), facts.loc(b))
    for sup, subs, why in SUPERSETS:
        if sup not in impls:
            continue
        for sub in subs:
            for m in sorted(impls.get(sub, {})):
                rep.check(R, f'{sup}>={sub}|{m}', m in impls[sup], 'specialised', f'`{sub}` specialises `{m}` but `{sup}` does not: {why}')


def r2_tunnel(rep, facts, rid='C13/R2'):
    R = rep.rule(rid, 'date-time tunnel in every tree walker: value-position serializers recognise the date-time struct name (or delegate to '
                 'one that does); value deserializers present a Datetime as the private single-field map', floor=7)
    impls = sm.ser_impls(facts)
    for ty, role in sm.SER_ROLES.items():
        if role != 'value' or ty not in impls:
            continue
        d = impls[ty]['serialize_struct']
        how = sm.struct_tunnel(facts, d)
        ok = how == 'tests-name'
        if how.startswith('delegates:'):
            tgt = how.split(':', 1)[1]
            ok = any(t in tgt for t, r in sm.SER_ROLES.items() if r == 'value' and t != ty and t.lstrip('&mut ') in tgt) or 'ValueSerializer' in tgt
        rep.check(R, f'{ty}|serialize_struct', ok, how, f'`{ty}::serialize_struct` {how} the date-time struct name: a Datetime serialized in value position becomes a table holding '
                  f'the private field instead of a date-time (the Value route and the text route then disagree)', facts.loc(facts.body(d)))
    # deserializer side
    for d, label in (("<toml_edit::de::value::ValueDeserializer as serde::de::Deserializer<'de>>::deserialize_any", 'toml_edit ValueDeserializer'),
                     ("<toml::value::Value as serde::de::Deserializer<'de>>::deserialize_any", 'toml::Value')):
        if not facts.has_body(d):
            continue
        b = facts.body(d)
        arm_ok = False
        detail = 'Datetime arm not found'
        for m in walk(b['body']):
            if m.get('k') == 'match' and m.get('src') == 'Normal':
                for arm in m['arms']:
                    if any(last_seg(x.get('path') or '') == 'Datetime' for x in walk(arm['pat']) if x.get('k') in ('p_tuplestruct', 'p_struct')):
                        visits = [x.get('name') for x in walk(arm['body']) if x.get('k') == 'mcall' and (x.get('name') or '').startswith('visit_')]
                        mapacc = any('DatetimeDeserializer' in ((peel(x.get('f', {})).get('path') or '') + (x.get('path') or '') + (x.get('adt') or '')) for x in walk(arm['body'])
                                     if x.get('k') in ('call', 'struct'))
                        arm_ok = visits == ['visit_map'] and mapacc
                        detail = f'Datetime -> {visits}' + (' over DatetimeDeserializer' if mapacc else '')
        rep.check(R, f'{label}|Datetime-arm', arm_ok, detail, f'`{label}` presents a Datetime as {detail}: `Datetime::deserialize` (which expects the private map) fails on this route '
                  f'and converting to Value turns date-times into strings', facts.loc(b))
    # the MapAccess of each DatetimeDeserializer offers FIELD then the printed value
    for d, b in facts.bodies.items():
        if 'DatetimeDeserializer' in d and last_seg(strip_generics(d)) == 'next_key_seed':
            okf = any((x.get('path') or '').endswith('datetime::FIELD') for x in walk(b['body']) if x.get('k') == 'path')
            rep.check(R, f'{d.split(" as ")[0].lstrip("<")}|key', okf, 'key = FIELD', f'`{d}` does not offer the private date-time field name', facts.loc(b))
        if 'DatetimeDeserializer' in d and last_seg(strip_generics(d)) == 'next_value_seed':
            # printed with Display: `.to_string()` or a `format!` of it (both go through Display for Datetime, whose text C12 decides)
            okv = any(x.get('k') == 'mcall' and x.get('name') == 'to_string' for x in walk(b['body'])) or \
                any(c == 'alloc::fmt::format' for x in calls_in(b['body']) for c in callee_all(x))
            rep.check(R, f'{d.split(" as ")[0].lstrip("<")}|value', okv, 'value = date.to_string()', f'`{d}` does not present the printed date-time', facts.loc(b))


ENUM_KINDS = {'unit_variant': 'unit', 'newtype_variant_seed': 'newtype', 'tuple_variant': 'tuple', 'struct_variant': 'struct'}


def r3_enum_access(rep, facts):
    R = rep.rule('C13/R3', 'twin enum access: TableEnumDeserializer (toml_edit) and MapEnumDeserializer (toml) accept the same value kinds per '
                 'VariantAccess method (four container kinds of toml_edit mapped onto toml\'s two)', floor=4)

    def kinds(d):
        b = facts.body(d)
        acc = set()
        for m in walk(b['body']):
            if m.get('k') == 'match' and m.get('src') == 'Normal':
                for arm in m['arms']:
                    vs = [last_seg(x.get('path') or '') for x in walk(arm['pat']) if x.get('k') in ('p_tuplestruct', 'p_struct')]
                    errs_only = peel(arm['body']).get('k') == 'call' and (peel(peel(arm['body']).get('f', {})).get('path') or '').endswith('Result::Err')
                    if not errs_only:
                        for v in vs:
                            acc.add(v)
        acc -= {'Value', 'Ok', 'Some', 'Err', 'None'}
        return b, acc
    # one TOML value has two spellings in a toml_edit tree, both of which the serializers emit
    SPELL = {'Table': {'Table', 'InlineTable'}, 'Array': {'Array', 'ArrayOfTables'}}
    for meth in ENUM_KINDS:
        d1 = f"<toml_edit::de::table_enum::TableEnumDeserializer as serde::de::VariantAccess<'de>>::{meth}"
        d2 = f"<toml::value::MapEnumDeserializer as serde::de::VariantAccess<'de>>::{meth}"
        if not (facts.has_body(d1) and facts.has_body(d2)):
            rep.incomplete(R, meth, 'twin method not found')
            continue
        b1, k1 = kinds(d1)
        b2, k2 = kinds(d2)
        want = set()
        for x in k2:
            want |= SPELL.get(x, {x})
        rep.check(R, meth, k1 == want, f'toml accepts {sorted(k2) or ["any (delegates)"]}, toml_edit every spelling of them {sorted(k1)}',
                  f'`{meth}`: toml::Value accepts {sorted(k2)}, so the toml_edit tree must accept {sorted(want)} (standard and inline spelling), but it accepts {sorted(k1)}: '
                  f'text that decodes through toml::Value fails through toml_edit::de (or the reverse)', facts.loc(b1))


def r4_none_and_insert(rep, facts):
    R = rep.rule('C13/R4', 'twin policies of the two map serializers: the None-field skip is guarded the same way and a repeated key is stored '
                 'with the same (last wins, `insert`) policy', floor=3)
    for d, kind, ok, detail, node in sm.swallow_sites(facts):
        b = facts.body(d)
        rep.check(R, f'{d}|swallow', ok, detail, f'`{d}` swallows a nested error ({detail}) where its twin reports it: Value::try_from and to_string disagree', facts.loc(b))
    stores = {}
    for d in ("<toml_edit::ser::map::SerializeInlineTable as serde::ser::SerializeMap>::serialize_value",
              "<toml_edit::ser::map::SerializeInlineTable as serde::ser::SerializeStruct>::serialize_field",
              "<toml::value::SerializeMap as serde::ser::SerializeMap>::serialize_value"):
        if not facts.has_body(d):
            continue
        b = facts.body(d)
        ops = sorted({n['name'] for n in walk(b['body']) if n.get('k') == 'mcall' and n.get('name') in ('insert', 'entry', 'or_insert', 'or_insert_with', 'push', 'extend')
                      and (peel(n['recv']).get('k') == 'field' or n['name'].startswith('or_'))})
        stores[d] = ops
        rep.check(R, f'{d}|store', ops == ['insert'], f'{ops}', f'`{d}` stores entries with {ops}; its twins use `insert` (last value wins on a repeated key), so the routes disagree on duplicate keys', facts.loc(b))


def r7_value_passes(rep, facts, rid='C13/R7'):
    R = rep.rule(rid, 'Serialize for toml::Value writes a table in passes (plain values, arrays holding tables, tables): evaluated on a table with one entry of every kind '
                 '(scalar, arrays of scalars / of tables / mixed / empty, table), every entry is written exactly once, the announced length is the number of entries, '
                 'and no table-holding entry comes before a plain one', floor=3)
    from .den import RecInterp, Evaluator, Unanalysable, EvalPanic
    d = "<toml::value::Value as serde::ser::Serialize>::serialize"
    if not facts.has_body(d):
        rep.incomplete(R, 'Value::serialize', 'not found')
        return
    b = facts.body(d)
    pn = [p_['name'] for p_ in b['params'] if p_.get('k') == 'p_bind']
    V = 'toml::value::Value::'
    INT = lambda i: ('ctor', V + 'Integer', (i,))
    TAB = ('ctor', V + 'Table', ((),))
    ARR = lambda *xs: ('ctor', V + 'Array', (tuple(xs),))
    kinds = [('scalar', INT(1), 0), ('table', TAB, 2), ('array of scalars', ARR(INT(1), INT(2)), 0), ('array of tables', ARR(TAB, TAB), 1), ('array: scalar then table', ARR(INT(1), TAB), 1),
             ('array: table then scalar', ARR(TAB, INT(1)), 1), ('empty array', ARR(), 0), ('scalar after the table', INT(2), 0)]
    kids = tuple((k, v) for k, v, _ in kinds)
    it = RecInterp(Evaluator(facts), {'serialize_map', 'serialize_entry', 'end'})
    env = {pn[0]: ('ctor', V + 'Table', (kids,)), pn[1]: ('opaque',), '@assign': {}}
    try:
        it.run_body(b, env)
    except (Unanalysable, EvalPanic) as e:
        rep.incomplete(R, 'Value::serialize', f'cannot evaluate: {e}', facts.loc(b))
        return
    written = [a[0] for nm, a in it.calls if nm == 'serialize_entry' and a]
    missing = [k for k, _, _ in kinds if written.count(k) == 0]
    twice = [k for k, _, _ in kinds if written.count(k) > 1]
    rep.check(R, 'Value::serialize|every-entry-once', not missing and not twice, f'{len(written)} entries written', f'`Serialize for toml::Value`: entries never written: {missing}; written more than once: {twice} '
              f'(a value of that kind silently disappears from / is duplicated in every encoding of the Value)', facts.loc(b))
    lens = [a[0] for nm, a in it.calls if nm == 'serialize_map' and a]
    okl = len(lens) == 1 and lens[0] in (('ctor', 'core::option::Option::Some', (len(kinds),)), ('ctor', 'core::option::Option::None'))
    rep.check(R, 'Value::serialize|announced-length', okl, f'{lens}', f'serialize_map is announced with {lens}, the table has {len(kinds)} entries', facts.loc(b))
    rank = {k: r for k, _, r in kinds}
    order = [rank[k] for k in written if k in rank]
    rep.check(R, 'Value::serialize|values-first', order == sorted(order), 'plain values, then arrays holding tables, then tables', f'entries are written in the order {written}: a plain value after a '
              f'table (or array of tables) would be read back as a member of that table', facts.loc(b))


def r8_variant_payload(rep, facts):
    R = rep.rule('C13/R8', 'Value::try_from and Table::try_from agree on enum variants: the payload of a variant is a value below the root, so the root table serializer hands it '
                 'to the same serializer (by type) as the value serializer does; only the one-entry table around it differs (cross-check of sibling implementations)', floor=1)
    SER = 'serde::ser::Serializer'
    va = [i for i in facts.impls if i.get('trait') == SER and i.get('self_ty') == 'toml::value::ValueSerializer']
    ta = [i for i in facts.impls if i.get('trait') == SER and i.get('self_ty') == 'toml::value::TableSerializer']
    if not va or not ta:
        rep.incomplete(R, 'impls', 'Serializer impls of toml::value::ValueSerializer / TableSerializer not found')
        return
    for meth in ('serialize_newtype_variant',):
        dv, dt = facts.impl_method(va[0], meth), facts.impl_method(ta[0], meth)
        if not dv or not dt or not facts.has_body(dv) or not facts.has_body(dt):
            rep.incomplete(R, meth, 'method not found in both serializers')
            continue
        def inner(d):
            b = facts.body(d)
            return sorted({(peel(x['args'][0]).get('t') or '?') for x in walk(b['body']) if x.get('k') == 'mcall' and x.get('name') == 'serialize' and x.get('args')})
        iv, it_ = inner(dv), inner(dt)
        rep.check(R, meth, iv == it_ and bool(iv), f'payload serialized with {iv}', f'`TableSerializer::{meth}` serializes the payload with {it_}, `ValueSerializer::{meth}` with {iv}: '
                  f'Table::try_from and Value::try_from then disagree on (or one of them rejects) a root newtype variant whose payload is not a struct', facts.loc(facts.body(dt)))


def r10_variant_collectors(rep, facts, rid='C13/R10'):
    R = rep.rule(rid, 'a variant\'s fields are collected like the fields of a plain struct / tuple: serialize_field of every SerializeStructVariant / SerializeTupleVariant impl of the '
                 'workspace hands the field to the plain collector it wraps (serialize_field / serialize_element) and stores nothing itself — so a None field, a date-time field or '
                 'an unsupported value is treated on this route exactly as in a plain struct, and as on the other routes', floor=6)
    for imp in facts.impls:
        tr = imp.get('trait') or ''
        if tr not in ('serde::ser::SerializeStructVariant', 'serde::ser::SerializeTupleVariant'):
            continue
        for it in imp['items']:
            if it['name'] != 'serialize_field' or not facts.has_body(it['def']):
                continue
            b = facts.body(it['def'])
            names = [n.get('name') or last_seg(strip_generics((callee_all(n) or ['?'])[0])) for n in calls_in(b['body'])]
            names = [last_seg(x) if x else x for x in names]
            fw = [x for x in names if x in ('serialize_field', 'serialize_element')]
            own = [x for x in names if x in ('insert', 'insert_formatted', 'push', 'push_formatted', 'try_from', 'serialize', 'entry', 'or_insert', 'extend')]
            rep.check(R, f'{imp["self_ty"]}|{last_seg(tr)}', len(fw) == 1 and not own, f'-> inner.{fw[0] if fw else "?"}',
                      f'`{it["def"]}` ' + (f'stores the field itself ({own})' if own else f'forwards to {fw}') + ' instead of handing it to the plain collector it wraps: a field that is None '
                      '(or a date-time) in a variant is treated differently from the same field in a plain struct, and differently from the other encoding routes', facts.loc(b))


def rules(rep, facts):
    feats = set(facts.crates.get('toml_edit', {}).get('features', []))
    if 'toml' not in facts.crates:
        return
    r8_variant_payload(rep, facts)
    r10_variant_collectors(rep, facts)
    r1_wrappers(rep, facts)
    r7_value_passes(rep, facts)
    if facts.config == 'default' and 'toml' in facts.crates:
        # the Value route must not read a table by position where the text route reads it by key (seeded change C13-m15)
        from .rules_c18 import r5_order_sensitive
        r5_order_sensitive(rep, rid='C13/R13')
    if 'toml_edit' in facts.crates and 'serde' in feats:
        r2_tunnel(rep, facts)
        r4_none_and_insert(rep, facts)
        from .rules_serdeflow import r_value_serializers
        r_value_serializers(rep, facts, 'C13/R11', judge='agree')
        from .rules_serdeflow import r_round_trip
        r_round_trip(rep, facts, 'C13/R12')
        from .rules_c07 import r3_promotion
        r3_promotion(rep, facts)
        rep.relabel('C07/R3', 'C13/R9', 'the pretty route prints what the plain route prints (a formatting pass that promotes tables inside values loses them: the text then decodes to another value): ')
        from .rules_c07 import r3b_empty_tables
        r3b_empty_tables(rep, facts)
        rep.relabel('C07/R3b', 'C13/R9b', 'every encoding route keeps an empty table (a formatting pass that hides it makes the pretty text decode to less than the plain text): ')
        from .rules_c07 import r7_forwarding
        r7_forwarding(rep, facts, rid='C13/R6', traits=(sm.SER, sm.DE))
        if 'parse' in feats:
            r3_enum_access(rep, facts)
            from .rules_c01 import r7_single_parser
            r7_single_parser(rep, facts)
            # re-label the shared rule under this property
            if 'C01/R7' in rep.rules:
                rep.rules['C13/R5'] = rep.rules.pop('C01/R7')
                for v in rep.violations:
                    if v['rule'] == 'C01/R7':
                        v['rule'] = 'C13/R5'
                        v['key'] = v['key'].replace('C01/R7', 'C13/R5')


def run(tier):
    return run_property(PROP, tier, rules, configs_thorough=['default', 'perf', 'preserve_order', 'toml_parse', 'toml_display', 'toml_nodefault'])
