"""E6: compile-fail witnesses.  The harness crate /verif/witness path-depends on the analysed tree; it is copied
to the fact cache of that tree, built with `cargo +nightly test --doc` (error codes are checked on nightly only) and
every witness / twin result is reported.  The type checker is the decision procedure; nothing is run (`no_run` twins)."""
import json
import os
import re
import shutil
import subprocess

from .core import VERIF, CACHE, tree_hash, repo_root, AnalysisIncomplete


def run_witnesses(repo=None):
    repo = repo or repo_root()
    th = tree_hash(repo)
    out = os.path.join(CACHE, th, 'witness.json')
    if os.path.exists(out):
        return json.load(open(out))
    wd = os.path.join(CACHE, th, 'witness')
    shutil.rmtree(wd, ignore_errors=True)
    os.makedirs(os.path.join(wd, 'src'))
    shutil.copy(os.path.join(VERIF, 'witness', 'src', 'lib.rs'), os.path.join(wd, 'src', 'lib.rs'))
    with open(os.path.join(VERIF, 'witness', 'Cargo.toml.in')) as f:
        toml = f.read().replace('@REPO@', repo)
    with open(os.path.join(wd, 'Cargo.toml'), 'w') as f:
        f.write(toml)
    shutil.copy(os.path.join(repo, 'Cargo.lock'), os.path.join(wd, 'Cargo.lock'))
    env = dict(os.environ, CARGO_NET_OFFLINE='true', CARGO_TARGET_DIR=os.path.join(CACHE, 'target-witness'))
    p = subprocess.run(['cargo', '+nightly', 'test', '--doc', '--offline'], cwd=wd, env=env, capture_output=True, text=True)
    text = p.stdout + p.stderr
    res = {}
    for m in re.finditer(r'test src/lib\.rs - (\w+) \(line \d+\)(?: - compile fail)?(?: - compile)? \.\.\. (\w+)', text):
        res[m.group(1)] = m.group(2)
    if not res:
        raise AnalysisIncomplete('witness crate did not build / no doc-test result:\n' + text[-1500:])
    json.dump(res, open(out, 'w'), indent=1)
    shutil.rmtree(wd, ignore_errors=True)
    return res


def report(rep, rid, text, names, floor=None):
    """register witnesses `names` (without twins) under rule `rid`"""
    R = rep.rule(rid, text, floor=floor or 2 * len(names))
    try:
        res = run_witnesses()
    except AnalysisIncomplete as e:
        rep.incomplete(R, 'witness-build', str(e))
        return
    for n in names:
        w = res.get(n)
        rep.check(R, n, w == 'ok', 'does not type-check, with the expected error code', f'witness `{n}` now compiles (or fails with a different error): the type-level guarantee is gone ({w})', 'witness/src/lib.rs')
        twin = re.sub(r'_.*', '_twin', n)
        t = res.get(twin)
        rep.check(R, twin, t == 'ok', 'twin compiles', f'the compiling twin `{twin}` of `{n}` does not build ({t}): the witness would pass for the wrong reason', 'witness/src/lib.rs')
