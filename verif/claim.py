#!/usr/bin/env python3
"""usage: claim.py <Cxx> <technique> <text> <note>   — registers/updates a claim and regenerates MANIFEST.json"""
import json, os, sys, subprocess
V = os.path.dirname(os.path.dirname(os.path.abspath(__file__)))
p = os.path.join(V, 'verif', 'claims.json')
d = json.load(open(p))
pid, technique, text, note = sys.argv[1:5]
d['claims'][pid] = {'technique': technique, 'text': text, 'note': note}
d['not_applicable'].pop(pid, None)
json.dump(d, open(p, 'w'), indent=1, sort_keys=True)
subprocess.run([sys.executable, os.path.join(V, 'verif', 'manifest.py')], check=True)
