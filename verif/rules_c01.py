"""C01 — the parser accepts exactly the valid TOML 1.0.0 documents (decided part:
lexical tables, repeat bounds, field ranges, first-byte dispatch, verdict filters,
line structure, single parser).  See DESIGN.md section 4, C01."""
from .core import run_property, AnalysisIncomplete, walk, peel, last_seg
from .den import Unanalysable, Interp, fmt_set, INF, ALL, pat_set
from .abnf import Abnf
from . import parsemodel as pm
from .parsemodel import P, term, atoms, short
from .cg import CallGraph

PROP = 'C01'


def cc(a, *names):
    s = frozenset()
    for n in names:
        c = a.charclass(n)
        if c is None:
            raise AnalysisIncomplete(f'ABNF rule {n} is not a character class')
        s |= c
    return s


def rep_elem_class(a, rule):
    n = a.node(rule)
    if n[0] == 'rep':
        c = a.charclass(n[3])
        if c is not None:
            return c
    raise AnalysisIncomplete(f'ABNF rule {rule} is not a repetition of a class')


def ws_stripped_literal(a, rule):
    """literal part of rules like `std-table-open = %x5B ws`"""
    n = a.node(rule)
    parts = n[1] if n[0] == 'cat' else [n]
    out = b''
    for p in parts:
        if p == ('ref', 'ws'):
            continue
        l = a.literal(p)
        if l is None:
            raise AnalysisIncomplete(f'ABNF rule {rule}: non-literal part')
        out += l
    return out


# (function, atom kind, ordinal) -> expected denotation from the ABNF
def class_table(a):
    sign = cc(a, 'minus', 'plus')
    us = cc(a, 'underscore')
    T = []

    def cls(fn, kind, i, s, what):
        T.append((fn, kind, i, 'set', s, what))

    def lit(fn, i, b, what):
        T.append((fn, 'lit', i, 'lit', bytes(b), what))

    cls('trivia::ws', 'take_while', 0, cc(a, 'wschar'), 'wschar')
    cls('trivia::ws_newline', 'take_while', 0, cc(a, 'wschar'), 'wschar')
    cls('trivia::comment', 'take_while', 0, cc(a, 'non-eol'), 'non-eol')
    lit('trivia::comment', 0, a.literal('comment-start-symbol'), 'comment-start-symbol')
    crlf = [x for x in a.alternatives('newline') if a.literal(x) and len(a.literal(x)) == 2]
    cls('trivia::newline', 'one_of', 0, frozenset([a.literal(crlf[0])[1]]), 'second byte of CRLF')
    cls('strings::basic_chars', 'take_while', 0, cc(a, 'basic-unescaped'), 'basic-unescaped')
    cls('strings::mlb_content', 'take_while', 0, cc(a, 'mlb-unescaped'), 'mlb-unescaped')
    cls('strings::literal_string', 'take_while', 0, cc(a, 'literal-char'), 'literal-char')
    cls('strings::mll_content', 'one_of', 0, cc(a, 'mll-char'), 'mll-char')
    cls('strings::basic_string', 'one_of', 0, cc(a, 'quotation-mark'), 'quotation-mark')
    cls('strings::basic_string', 'one_of', 1, cc(a, 'quotation-mark'), 'quotation-mark')
    lit('strings::literal_string', 0, a.literal('apostrophe'), 'apostrophe')
    lit('strings::literal_string', 1, a.literal('apostrophe'), 'apostrophe')
    lit('strings::escaped', 0, a.literal('escape'), 'escape')
    lit('strings::mlb_escaped_nl', 0, a.literal('escape'), 'escape')
    lit('strings::ml_basic_string', 0, a.literal('ml-basic-string-delim'), 'ml-basic-string-delim')
    lit('strings::ml_basic_string', 1, a.literal('ml-basic-string-delim'), 'ml-basic-string-delim')
    lit('strings::ml_literal_string', 0, a.literal('ml-literal-string-delim'), 'ml-literal-string-delim')
    lit('strings::ml_literal_string', 1, a.literal('ml-literal-string-delim'), 'ml-literal-string-delim')
    q = a.literal('quotation-mark')
    ap = a.literal('apostrophe')
    lo, hi = a.rep_bounds('mlb-quotes')
    lit('strings::mlb_quotes', 0, q * hi, 'mlb-quotes upper bound (tried first)')
    lit('strings::mlb_quotes', 1, q * lo, 'mlb-quotes lower bound')
    lo, hi = a.rep_bounds('mll-quotes')
    lit('strings::mll_quotes', 0, ap * hi, 'mll-quotes upper bound (tried first)')
    lit('strings::mll_quotes', 1, ap * lo, 'mll-quotes lower bound')
    cls('strings::ml_basic_body', 'none_of', 0, ALL - cc(a, 'quotation-mark'), 'not quotation-mark (quote-run lookahead)')
    lit('strings::ml_basic_body', 0, a.literal('ml-basic-string-delim'), 'closing delimiter lookahead')
    cls('strings::ml_literal_body', 'none_of', 0, ALL - cc(a, 'apostrophe'), 'not apostrophe (quote-run lookahead)')
    lit('strings::ml_literal_body', 0, a.literal('ml-literal-string-delim'), 'closing delimiter lookahead')
    cls('strings::hexescape', 'take_while', 0, cc(a, 'HEXDIG'), 'HEXDIG')
    cls('key::unquoted_key', 'take_while', 0, rep_elem_class(a, 'unquoted-key'), 'unquoted-key characters')
    lit('key::key', 0, ws_stripped_literal(a, 'dot-sep'), 'dot-sep')
    cls('numbers::digit', 'one_of', 0, cc(a, 'DIGIT'), 'DIGIT')
    cls('numbers::hexdig', 'one_of', 0, cc(a, 'HEXDIG'), 'HEXDIG')
    cls('numbers::dec_int', 'one_of', 0, sign, 'minus / plus')
    cls('numbers::dec_int', 'one_of', 1, cc(a, 'digit1-9'), 'digit1-9')
    cls('numbers::dec_int', 'one_of', 2, us, 'underscore')
    lit('numbers::hex_int', 0, a.literal('hex-prefix'), 'hex-prefix')
    cls('numbers::hex_int', 'one_of', 0, us, 'underscore')
    lit('numbers::oct_int', 0, a.literal('oct-prefix'), 'oct-prefix')
    for i in (0, 1, 3):
        cls('numbers::oct_int', 'one_of', i, cc(a, 'digit0-7'), 'digit0-7')
    cls('numbers::oct_int', 'one_of', 2, us, 'underscore')
    lit('numbers::bin_int', 0, a.literal('bin-prefix'), 'bin-prefix')
    for i in (0, 1, 3):
        cls('numbers::bin_int', 'one_of', i, cc(a, 'digit0-1'), 'digit0-1')
    cls('numbers::bin_int', 'one_of', 2, us, 'underscore')
    cls('numbers::zero_prefixable_int', 'one_of', 0, us, 'underscore')
    e_ci = a.node('exp')[1][0]
    cls('numbers::exp', 'one_of', 0, a.charclass(e_ci), '"e" (case-insensitive)')
    cls('numbers::exp', 'one_of', 1, sign, 'minus / plus')
    lit('numbers::frac', 0, a.literal('decimal-point'), 'decimal-point')
    cls('numbers::special_float', 'one_of', 0, sign, 'minus / plus')
    lit('numbers::inf', 0, a.literal('inf'), 'inf')
    lit('numbers::nan', 0, a.literal('nan'), 'nan')
    lit('numbers::true_', 0, a.literal('true')[:1], 'first byte of true (peek)')
    lit('numbers::true_', 1, a.literal('true'), 'true')
    lit('numbers::false_', 0, a.literal('false')[:1], 'first byte of false (peek)')
    lit('numbers::false_', 1, a.literal('false'), 'false')
    cls('datetime::time_delim', 'one_of', 0, cc(a, 'time-delim'), 'time-delim')
    off = a.alternatives('time-offset')
    cls('datetime::time_offset', 'one_of', 0, a.charclass(off[0]), '"Z" (case-insensitive)')
    numoff = a.node('time-numoffset')[1]
    cls('datetime::time_offset', 'one_of', 1, a.charclass(numoff[0]), '"+" / "-"')
    lit('datetime::time_offset', 0, a.literal_ci(numoff[2]).pop(), '":"')
    lit('datetime::time_secfrac', 0, a.literal_ci(a.node('time-secfrac')[1][0]).pop(), '"."')
    fd = a.node('full-date')[1]
    lit('datetime::full_date_', 0, a.literal_ci(fd[1]).pop(), '"-"')
    lit('datetime::full_date_', 1, a.literal_ci(fd[3]).pop(), '"-"')
    pt = a.node('partial-time')[1]
    lit('datetime::partial_time', 0, a.literal_ci(pt[1]).pop(), '":"')
    lit('datetime::partial_time', 1, a.literal_ci(pt[3]).pop(), '":"')
    cls('datetime::unsigned_digits', 'take_while', 0, cc(a, 'DIGIT'), 'DIGIT')
    lit('array::array', 0, a.literal('array-open'), 'array-open')
    lit('array::array', 1, a.literal('array-close'), 'array-close')
    lit('array::array_values', 0, a.literal('array-close'), 'array-close (empty array lookahead)')
    lit('array::array_values', 1, a.literal('array-sep'), 'array-sep')
    lit('array::array_values', 2, a.literal('array-sep'), 'array-sep (trailing)')
    lit('inline_table::inline_table', 0, ws_stripped_literal(a, 'inline-table-open'), 'inline-table-open')
    lit('inline_table::inline_table', 1, ws_stripped_literal(a, 'inline-table-close'), 'inline-table-close')
    lit('inline_table::inline_table_keyvals', 0, ws_stripped_literal(a, 'inline-table-sep'), 'inline-table-sep')
    eq = frozenset(ws_stripped_literal(a, 'keyval-sep'))
    cls('inline_table::keyval', 'one_of', 0, eq, 'keyval-sep')
    cls('document::parse_keyval', 'one_of', 0, eq, 'keyval-sep')
    lit('table::std_table', 0, ws_stripped_literal(a, 'std-table-open'), 'std-table-open')
    lit('table::std_table', 1, ws_stripped_literal(a, 'std-table-close'), 'std-table-close')
    lit('table::array_table', 0, ws_stripped_literal(a, 'array-table-open'), 'array-table-open')
    lit('table::array_table', 1, ws_stripped_literal(a, 'array-table-close'), 'array-table-close')
    lit('document::document', 0, b'\xef\xbb\xbf', 'UTF-8 byte-order mark')
    return T


# wildcard atoms (any / take / rest) and their reviewed role
WILDCARDS = {
    ('document::document', 'any', 0): 'peeked first byte of a line (dispatch scrutinee)',
    ('key::simple_key', 'any', 0): 'peeked first byte (dispatch scrutinee)',
    ('value::value', 'any', 0): 'peeked first byte (dispatch scrutinee)',
    ('trivia::ws_comment_newline', 'any', 0): 'peeked next byte (dispatch scrutinee)',
    ('trivia::newline', 'any', 0): 'consumed first byte of newline, every arm but LF / CR fails',
    ('strings::escape_seq_char', 'any', 0): 'consumed escape letter, every unknown letter fails',
    ('table::table', 'take', 0): 'peeked two bytes (dispatch scrutinee)',
    ('numbers::integer', 'take', 0): 'peeked two bytes (radix prefix dispatch)',
    ('numbers::integer', 'rest', 0): 'and_then: re-parses the already lexed dec-int slice',
    ('numbers::float', 'rest', 0): 'and_then: re-parses the already lexed float slice',
}


def r1_byte_classes(rep, g, a):
    R = rep.rule('C01/R1', 'every token class / literal used as a parser in toml_edit::parser denotes the byte set of the '
                 'ABNF rule it implements (set equality), and no unmapped token atom exists', floor=93)
    table = class_table(a)
    expected = {(fn, kind, i): (how, val, what) for fn, kind, i, how, val, what in table}
    seen = set()
    for d, t in sorted(g.terms.items()):
        if t is None:
            continue
        fn = short(d)
        for kind, i, x in atoms(g, t):
            key = (fn, kind, i)
            seen.add(key)
            loc = f"{g.facts.rel(g.facts.bodies[d]['file'])}:{x.get('l')}"
            if key in WILDCARDS:
                rep.ok(R, f'{fn}|{kind}#{i}', 'wildcard atom, reviewed role: ' + WILDCARDS[key], loc)
                continue
            if key not in expected:
                rep.bad(R, f'{fn}|{kind}#{i}|unmapped',
                        f'token atom `{g.describe(x)}` in `{fn}` has no ABNF counterpart in the reviewed table '
                        f'(a new or moved lexical atom changes the accepted language)', loc)
                continue
            how, val, what = expected[key]
            if how == 'set':
                got = x['set']
                if got == val:
                    rep.ok(R, f'{fn}|{kind}#{i}|{what}', f'{fmt_set(got)} == ABNF {what}', loc)
                else:
                    extra = got - val
                    miss = val - got
                    rep.bad(R, f'{fn}|{kind}#{i}|{what}',
                            f'byte class in `{fn}` differs from ABNF `{what}`: admits extra {fmt_set(extra)}, misses {fmt_set(miss)}', loc)
            else:
                got = bytes(x['bytes'])
                rep.check(R, f'{fn}|{kind}#{i}|{what}', got == val, f'{got!r} == ABNF {what}',
                          f'literal {got!r} in `{fn}` differs from ABNF `{what}` = {val!r}', loc)
    for key in expected:
        if key not in seen:
            fn, kind, i = key
            rep.bad(R, f'{fn}|{kind}#{i}|{expected[key][2]}|missing',
                    f'expected token atom for ABNF `{expected[key][2]}` not found in `{fn}` ({kind} #{i}): the lexical '
                    f'atom was removed or moved', kind='violation')
    for key in WILDCARDS:
        if key not in seen:
            rep.incomplete(R, f'{key[0]}|{key[1]}#{key[2]}|wildcard-missing', 'reviewed wildcard atom no longer present')
    for (l, msg) in g.errors:
        rep.incomplete(R, f'unanalysable|{msg[:60]}', f'unanalysable token class at line {l}: {msg}')
    for d, t in g.terms.items():
        if t is None:
            continue
        for x in g.tops(t):
            rep.incomplete(R, f'{short(d)}|TOP|{x.get("why")}', f'unmodelled construct in parser `{short(d)}` line {x.get("l")}: {x.get("why")}')


FIELD_RANGES = {
    'datetime::date_month': (1, 12, 'RFC 3339 date-month 01-12'),
    'datetime::date_mday': (1, 31, 'RFC 3339 date-mday 01-31'),
    'datetime::time_hour': (0, 23, 'RFC 3339 time-hour 00-23'),
    'datetime::time_minute': (0, 59, 'RFC 3339 time-minute 00-59'),
    'datetime::time_second': (0, 60, 'RFC 3339 time-second 00-60'),
}


def gregorian_leap(y):
    return y % 4 == 0 and (y % 100 != 0 or y % 400 == 0)


def month_len(m, leap):
    return {1: 31, 2: 29 if leap else 28, 3: 31, 4: 30, 5: 31, 6: 30, 7: 31, 8: 31, 9: 30, 10: 31, 11: 30, 12: 31}[m]


def find_let(body, name_prefix):
    for s in body.get('stmts', []):
        if s.get('k') == 'let' and s['pat'].get('k') == 'p_bind' and s['pat']['name'].split('#')[0] == name_prefix:
            return s
    return None


def binding_of_parser(body, parser_seg):
    """name of the local bound by `let x = <..parser..>.parse_next(input)?`"""
    for s in body.get('stmts', []):
        if s.get('k') == 'let' and s['pat'].get('k') == 'p_bind':
            for c in walk(s.get('init', {})):
                if c.get('k') == 'path' and c.get('res') in ('Fn', 'AssocFn') and last_seg(c.get('path')) == parser_seg:
                    return s['pat']['name']
    return None


def date_tables(facts, g, fn_body, year_var, month_var, day_var):
    """tabulate (leap predicate, month-length table, day rejection) of a full-date routine.
    Returns dict with 'leap' (set of leap years), 'len' ({(m, leap): n}), 'reject' ({(max, day): bool})"""
    interp = Interp(g.ev)
    body = fn_body
    leap_let = None
    len_let = None
    for s in body.get('stmts', []):
        if s.get('k') != 'let' or s['pat'].get('k') != 'p_bind':
            continue
        init = s.get('init', {})
        t = s['pat'].get('t')
        if t == 'bool' and any(c.get('k') == 'binary' and c.get('op') == '%' for c in walk(init)):
            leap_let = s
        if peel(init).get('k') == 'match' and t in ('u8', 'i32', 'u32', 'u16', 'usize'):
            len_let = s
    if leap_let is None or len_let is None:
        raise AnalysisIncomplete('leap-year predicate or month-length table not found')
    leap_name = leap_let['pat']['name']
    out = {}
    out['leap'] = {y for y in range(0, 10000) if interp.run(leap_let['init'], {year_var: y})}
    tab = {}
    for m in range(1, 13):
        for lp in (False, True):
            tab[(m, lp)] = interp.run(len_let['init'], {month_var: m, leap_name: lp})
    out['len'] = tab
    out['len_name'] = len_let['pat']['name']
    return out


def r2_ranges(rep, g, a):
    R = rep.rule('C01/R2', 'date-time field acceptance sets equal RFC 3339 / TOML 1.0.0: month 1-12, mday 1-31 capped by '
                 'the Gregorian month length, hour 0-23, minute 0-59, second 0-60, offset hour/minute as time-hour/time-minute', floor=10)
    facts = g.facts
    for fn, (lo, hi, what) in FIELD_RANGES.items():
        loc = facts.loc(facts.body(P + fn))
        try:
            acc = pm.accept_set_2digit(g, fn)
        except Unanalysable as e:
            rep.incomplete(R, f'{fn}|range', f'cannot tabulate the range check of `{fn}`: {e}', loc)
            continue
        exp = set(range(lo, hi + 1))
        if acc == exp:
            rep.ok(R, f'{fn}|range', f'accepts exactly {lo}..={hi} ({what})', loc)
        else:
            rep.bad(R, f'{fn}|range', f'`{fn}` accepts {fmt_set(acc)} but {what} requires {lo}..={hi}: '
                    f'extra {fmt_set(acc - exp)}, missing {fmt_set(exp - acc)}', loc)
    # full_date_: leap predicate, month-length table, rejection comparison.  Decided on the verdicts of the function itself, evaluated with the
    # outputs of its sub-parsers supplied (year, '-', month, '-', day): every month x day 0..=32 in a leap and a common year, and 29 February of
    # every year 0..=2800 (the Gregorian rule has period 400).  The structural reading below is the fallback when that evaluation is not possible.
    b = facts.body(P + 'datetime::full_date_')
    body = b['body']
    loc = facts.loc(b)
    from .den import ParseValueInterp, EvalPanic
    pn = [p_['name'] for p_ in b.get('params', []) if p_.get('k') == 'p_bind']

    def verdict(y, m, d):
        it = ParseValueInterp(g.ev, [y, 0x2D, m, 0x2D, d])
        r = it.run(body, {pn[0]: ('opaque',), '@assign': {}})
        if not (isinstance(r, tuple) and r and r[0] == 'ctor'):
            raise Unanalysable(f'full_date_ evaluates to {r!r}')
        if r[1].endswith('Result::Ok'):
            dd = r[2][0][2] if isinstance(r[2][0], tuple) and len(r[2][0]) == 3 and isinstance(r[2][0][2], dict) else {}
            if (dd.get('year'), dd.get('month'), dd.get('day')) != (y, m, d):
                raise Unanalysable(f'full_date_({y}-{m}-{d}) yields {dd}')
            return True
        return False
    try:
        badm = []
        for y, lp in ((2023, False), (2024, True)):
            for m in range(1, 13):
                got = max([d for d in range(0, 33) if verdict(y, m, d)] or [0])
                upward_closed = all(verdict(y, m, d) == (d <= got) for d in range(1, 33))
                if got != month_len(m, lp) or not upward_closed:
                    badm.append((m, lp, got))
        leap_got = {y for y in range(0, 2801) if verdict(y, 2, 29)}
        exp_leap = {y for y in range(0, 2801) if gregorian_leap(y)}
        rep.check(R, 'datetime::full_date_|leap-year', leap_got == exp_leap, '29 February accepted exactly in the Gregorian leap years 0..=2800',
                  f'leap-year predicate differs from the Gregorian rule on years {sorted(leap_got ^ exp_leap)[:8]}…', loc)
        rep.check(R, 'datetime::full_date_|month-length', not badm, 'month-length table equals the Gregorian calendar (24 cells)',
                  f'month-length table wrong for (month, leap, got): {badm}', loc)
        rep.ok(R, 'datetime::full_date_|day-vs-length', 'the days accepted in a month are 1..=some length (792 verdicts); the length is judged by month-length', loc)
        rep.ok(R, 'datetime::full_date_|reject-is-error', 'a day beyond the accepted ones evaluates to Err', loc)
        semantic_date = True
    except (Unanalysable, EvalPanic, KeyError, IndexError) as e:
        semantic_date = False
        rep.notes.append(f'full_date_ could not be evaluated ({e}); read structurally.')
    if semantic_date:
        # offset: built from time_hour / time_minute
        t = term(g, 'datetime::time_offset')
        m = pm.trans_mentions(g, t)
        rep.check(R, 'datetime::time_offset|fields', P + 'datetime::time_hour' in m and P + 'datetime::time_minute' in m,
                  'numeric offset is lexed by time_hour ":" time_minute (ranges 0-23 / 0-59)',
                  'time_offset no longer goes through time_hour / time_minute', facts.loc(facts.body(P + 'datetime::time_offset')))
        return
    yv = binding_of_parser(body, 'date_fullyear')
    mv = binding_of_parser(body, 'date_month')
    dv = binding_of_parser(body, 'date_mday')
    if not (yv and mv and dv):
        rep.incomplete(R, 'datetime::full_date_|bindings', 'year/month/day bindings not found', loc)
        return
    try:
        tabs = date_tables(facts, g, body, yv, mv, dv)
    except Unanalysable as e:
        rep.incomplete(R, 'datetime::full_date_|tables', f'cannot tabulate: {e}', loc)
        return
    exp_leap = {y for y in range(10000) if gregorian_leap(y)}
    rep.check(R, 'datetime::full_date_|leap-year', tabs['leap'] == exp_leap, 'leap-year predicate equals the Gregorian rule on years 0..=9999',
              f'leap-year predicate differs from the Gregorian rule on years {sorted(tabs["leap"] ^ exp_leap)[:8]}…', loc)
    badm = [(m, lp, tabs['len'][(m, lp)]) for m in range(1, 13) for lp in (False, True) if tabs['len'][(m, lp)] != month_len(m, lp)]
    rep.check(R, 'datetime::full_date_|month-length', not badm, 'month-length table equals the Gregorian calendar (24 cells)',
              f'month-length table wrong for (month, leap, got): {badm}', loc)
    # the rejecting comparison
    interp = Interp(g.ev)
    ifs = [s for s in walk(body) if s.get('k') == 'if' and any(c.get('k') == 'ret' for c in walk(s.get('then', {})))]
    cmp_if = None
    for s in ifs:
        names = {c.get('path') for c in walk(s['cond']) if c.get('k') == 'path' and c.get('res') == 'Local'}
        if dv in names and tabs['len_name'] in names:
            cmp_if = s
    if cmp_if is None:
        rep.bad(R, 'datetime::full_date_|day-vs-length', 'no early return comparing the day with the month length', loc)
    else:
        wrong = []
        for mx in (28, 29, 30, 31):
            for day in range(0, 100):
                try:
                    rej = bool(interp.run(cmp_if['cond'], {dv: day, tabs['len_name']: mx}))
                except Unanalysable as e:
                    rep.incomplete(R, 'datetime::full_date_|day-vs-length', f'cannot evaluate the comparison: {e}', loc)
                    return
                if rej != (day > mx):
                    wrong.append((mx, day, rej))
        rep.check(R, 'datetime::full_date_|day-vs-length', not wrong, 'rejects exactly day > month length (400 cells)',
                  f'day/month-length comparison wrong for (max, day, rejected): {wrong[:6]}', loc)
        # the rejecting branch must return an error
        isret = any(c.get('k') == 'ret' and any(last_seg(x.get('path', '')) == 'Err' for x in walk(c)) for c in walk(cmp_if['then']))
        rep.check(R, 'datetime::full_date_|reject-is-error', isret, 'rejection returns Err', 'the rejecting branch does not return Err', loc)
    # offset: built from time_hour / time_minute
    t = term(g, 'datetime::time_offset')
    m = pm.trans_mentions(g, t)
    rep.check(R, 'datetime::time_offset|fields', P + 'datetime::time_hour' in m and P + 'datetime::time_minute' in m,
              'numeric offset is lexed by time_hour ":" time_minute (ranges 0-23 / 0-59)',
              'time_offset no longer goes through time_hour / time_minute', facts.loc(facts.body(P + 'datetime::time_offset')))


EXPECTED_DIGITS = {
    'datetime::date_fullyear': (4, 4), 'datetime::date_month': (2, 2), 'datetime::date_mday': (2, 2),
    'datetime::time_hour': (2, 2), 'datetime::time_minute': (2, 2), 'datetime::time_second': (2, 2),
    'datetime::time_secfrac': (1, INF),
}
ABNF_DIGITS = {'datetime::date_fullyear': 'date-fullyear', 'datetime::date_month': 'date-month', 'datetime::date_mday': 'date-mday',
               'datetime::time_hour': 'time-hour', 'datetime::time_minute': 'time-minute', 'datetime::time_second': 'time-second'}


def r3_bounds(rep, g, a):
    R = rep.rule('C01/R3', 'repeat bounds and instantiations equal the ABNF: nDIGIT fields, hex escape lengths, 1* for bare '
                 'keys and string chunks, a digit required after every underscore', floor=29)
    facts = g.facts
    # unsigned_digits instantiations
    for fn, (lo, hi) in EXPECTED_DIGITS.items():
        t = term(g, fn)
        refs = [x for x in g.subterms(t) if x['op'] == 'ref' and last_seg(x['fn']) == 'unsigned_digits']
        loc = facts.loc(facts.body(P + fn))
        if len(refs) != 1:
            rep.bad(R, f'{fn}|digits', f'`{fn}` does not use exactly one unsigned_digits::<MIN, MAX> (found {len(refs)})', loc)
            continue
        env = g.generic_env(refs[0])
        got = (env.get('MIN'), env.get('MAX'))
        if fn in ABNF_DIGITS:
            exp = a.rep_bounds(ABNF_DIGITS[fn])
        else:
            exp = a.rep_bounds('time-secfrac')
        rep.check(R, f'{fn}|digits', got == exp == (lo, hi), f'unsigned_digits::<{got[0]}, {got[1]}> == ABNF {exp}',
                  f'`{fn}` lexes {got[0]}..={got[1]} digits, the ABNF requires {exp[0]}..={exp[1]}', loc)
    # unsigned_digits itself: take_while(MIN..=MAX, DIGIT)
    t = term(g, 'datetime::unsigned_digits')
    toks = [x for x in g.subterms(t) if x['op'] == 'tok']
    loc = facts.loc(facts.body(P + 'datetime::unsigned_digits'))
    ok = False
    if len(toks) == 1 and toks[0].get('rng') is not None:
        try:
            r = g.ev.range(toks[0]['rng'], {'MIN': 7, 'MAX': 11})
            ok = r == (7, 11)
        except Unanalysable:
            ok = False
    rep.check(R, 'datetime::unsigned_digits|bounds', ok, 'take_while(MIN..=MAX, DIGIT)',
              'unsigned_digits no longer lexes exactly MIN..=MAX digits', loc)
    # hexescape: bound to u -> 4, U -> 8; exactly N hex digits
    t = term(g, 'strings::escape_seq_char')
    disp = pm.find_dispatch(g, t)
    loc = facts.loc(facts.body(P + 'strings::escape_seq_char'))
    if disp is None:
        rep.incomplete(R, 'strings::escape_seq_char|dispatch', 'dispatch not found', loc)
    else:
        rows, _ = pm.dispatch_table(g, disp)
        for alt in a.alternatives('escape-seq-char'):
            if alt[0] == 'cat':
                letter = alt[1][0][1]
                n = alt[1][1][1]
                arm = [r for r in rows if letter in r[0]]
                hx = [x for x in g.subterms(arm[0][1]['p']) if x['op'] in ('ref', 'call') and last_seg(x['fn']) == 'hexescape'] if arm else []
                env_ = g.value_env(hx[0]) if hx else {}
                got = env_.get('N') if 'N' in env_ else (list(env_.values())[0] if len(env_) == 1 else None)         # (a const generic or the one integer argument)
                rep.check(R, f'strings::escape_seq_char|{chr(letter)}|hexescape', got == n, f"'{chr(letter)}' -> hexescape::<{got}> == ABNF {n}HEXDIG",
                          f"escape letter '{chr(letter)}' takes {got} hex digits, the ABNF requires {n}", loc)
    t = term(g, 'strings::hexescape')
    loc = facts.loc(facts.body(P + 'strings::hexescape'))
    toks = [x for x in g.subterms(t) if x['op'] == 'tok']
    flt = [x for x in pm.filters(g, t) if x[0] == 'verify']
    ok = False
    detail = 'take_while bound or len verify missing'
    # the number of digits is a const generic (`hexescape::<4>`) or an integer parameter (`hexescape(4)`): every name it may go by is bound
    hb = facts.body(P + 'strings::hexescape')
    nnames = [x for x in (facts.fns.get(P + 'strings::hexescape', {}).get('generics') or []) if not x.startswith("'")] + \
        [p_['name'] for p_ in hb.get('params', []) if p_.get('k') == 'p_bind' and (p_.get('t') or '') in ('usize', 'u8', 'u16', 'u32', 'u64')]
    if len(toks) == 1 and toks[0].get('rng') is not None:
        for N in (4, 8):
            nenv = {nm: N for nm in nnames}
            nenv['N'] = N
            try:
                lo, hi = g.ev.range(toks[0]['rng'], nenv)
            except Unanalysable as e:
                detail = str(e)
                break
            lens = set(range(lo, int(min(hi, 64)) + 1))
            for (_, _, f) in flt:
                clo = pm.closure_of(f.get('filt'))
                if clo is None:
                    continue
                bvar = clo['params'][0]['name'] if clo['params'] and clo['params'][0].get('k') == 'p_bind' else None
                interp = Interp(g.ev)
                keep = set()
                for L in lens:
                    try:
                        if interp.run(_len_subst(clo['body'], bvar), dict(nenv, **{'@len': L})):
                            keep.add(L)
                    except Unanalysable as e:
                        detail = str(e)
                        keep = None
                        break
                if keep is not None:
                    lens = keep
            if lens != {N}:
                detail = f'for N={N} the accepted digit counts are {sorted(lens)}'
                ok = False
                break
            ok = True
    rep.check(R, 'strings::hexescape|exactly-N', ok, 'accepts exactly N hex digits (take_while(0..=N) + verify(len == N))',
              f'hexescape does not accept exactly N hex digits: {detail}', loc)
    # minimum-1 classes
    for fn, rule, why in (('key::unquoted_key', 'unquoted-key', 'ABNF 1*( ALPHA / DIGIT / - / _ )'),):
        t = term(g, fn)
        tk = [x for x in g.subterms(t) if x['op'] == 'tok'][0]
        exp = a.rep_bounds(rule)
        rep.check(R, f'{fn}|bounds', (tk['min'], tk['max']) == exp, f'take_while({tk["min"]}..) == {why}',
                  f'`{fn}` lexes {tk["min"]}..{tk["max"]} characters, {why} requires {exp}', facts.loc(facts.body(P + fn)))
    for fn, lo, hi, why in (('strings::basic_chars', 1, INF, 'chunk of 1*basic-unescaped'), ('strings::mlb_content', 1, INF, 'chunk of 1*mlb-unescaped'),
                            ('strings::literal_string', 0, INF, '*literal-char'), ('trivia::comment', 0, INF, '*non-eol'),
                            ('trivia::ws', 0, INF, '*wschar'), ('trivia::ws_newline', 1, INF, '1*wschar inside *( wschar / newline )'),
                            ('strings::mll_content', 1, 1, 'one mll-char')):
        t = term(g, fn)
        tk = [x for x in g.subterms(t) if x['op'] == 'tok'][0]
        rep.check(R, f'{fn}|bounds', (tk['min'], tk['max']) == (lo, hi), f'{tk["min"]}..{tk["max"]} == {why}',
                  f'`{fn}` lexes {tk["min"]}..{tk["max"]} characters, expected {lo}..{hi} ({why})', facts.loc(facts.body(P + fn)))
    # underscore must be followed by a digit of the same class
    for fn, dclass in (('numbers::dec_int', 'DIGIT'), ('numbers::hex_int', 'HEXDIG'), ('numbers::oct_int', 'digit0-7'),
                       ('numbers::bin_int', 'digit0-1'), ('numbers::zero_prefixable_int', 'DIGIT')):
        t = term(g, fn)
        exp = cc(a, dclass)
        us = cc(a, 'underscore')
        found = 0
        good = 0
        for x in g.subterms(t):
            if x['op'] == 'seq':
                its = x['items']
                for i, it in enumerate(its):
                    if it['op'] == 'tok' and it['set'] == us:
                        found += 1
                        if i + 1 < len(its) and not pm.nullable_of(g, its[i + 1]) and pm.first_of(g, its[i + 1]) == exp \
                                and pm.consumed_of(g, its[i + 1]) == exp:
                            good += 1
        rep.check(R, f'{fn}|underscore-digit', found >= 1 and found == good, f'every `_` is followed by one {dclass}',
                  f'in `{fn}` an underscore is not followed by a mandatory {dclass} ({good}/{found} sites)', facts.loc(facts.body(P + fn)))
        # repetition alternates digit / _digit and the number starts with a digit
        reps = [x for x in g.subterms(t) if x['op'] == 'rep']
        okrep = any(r['min'] == 0 and r['max'] == INF and pm.first_of(g, r['p']) == (exp | us) for r in reps)
        rep.check(R, f'{fn}|digit-run', okrep, f'*( {dclass} / underscore {dclass} )',
                  f'`{fn}`: the digit run is not *( {dclass} / underscore {dclass} )', facts.loc(facts.body(P + fn)))


def _len_subst(body, bvar):
    """rewrite `b.len()` into the pseudo-local @len so the pure interpreter can tabulate the predicate"""
    import copy
    b = copy.deepcopy(body)

    def rec(n):
        if isinstance(n, dict):
            if n.get('k') == 'mcall' and n.get('name') == 'len':
                r = peel(n['recv'])
                if r.get('k') == 'path' and r.get('path') == bvar:
                    n.clear()
                    n.update({'k': 'path', 'res': 'Local', 'path': '@len'})
                    return
            for v in n.values():
                rec(v)
        elif isinstance(n, list):
            for v in n:
                rec(v)
    rec(b)
    return b


VAL_ALTS = {
    'string': ['strings::string'], 'array': ['array::array'], 'inline-table': ['inline_table::inline_table'],
    'date-time': ['datetime::date_time'], 'integer': ['numbers::integer'],
}


def r4_dispatch(rep, g, a):
    R = rep.rule('C01/R4', 'first-byte dispatch tables agree with the FIRST sets of the ABNF alternatives: every byte that can '
                 'start an alternative reaches an arm that tries that alternative, every other byte reaches a failing arm', floor=1200)
    facts = g.facts

    def arm_accepts(arm, b):
        return b in pm.first_of(g, arm['p']) or pm.nullable_of(g, arm['p'])

    # ---- value
    t = term(g, 'value::value')
    disp = pm.find_dispatch(g, t)
    loc = facts.loc(facts.body(P + 'value::value'))
    rows, rest = pm.dispatch_table(g, disp)
    if rest:
        rep.bad(R, 'value::value|total', f'dispatch does not cover bytes {fmt_set(rest)}', loc)
    firsts = {}
    for alt in a.alternatives('val'):
        firsts[alt[1]] = a.first(alt)
    allfirst = frozenset().union(*firsts.values())
    for s, arm in rows:
        m = pm.trans_mentions(g, arm['p'])
        for b in sorted(s):
            key = f'value::value|byte {b:#04x}'
            want = [n for n, fs in firsts.items() if b in fs]
            if not want:
                rep.check(R, key, not arm_accepts(arm, b), 'not in FIRST(val): arm cannot accept it',
                          f'byte {b:#04x} cannot start a TOML value but its dispatch arm (line {arm["l"]}) can accept it', loc)
                continue
            missing = []
            for n in want:
                if n == 'boolean':
                    fn = 'numbers::true_' if b == a.literal('true')[0] else 'numbers::false_'
                    if P + fn not in m:
                        missing.append(n)
                elif n == 'float':
                    if b in a.first('special-float') - a.first('dec-int'):
                        fn = 'numbers::inf' if b == a.literal('inf')[0] else 'numbers::nan'
                        if P + fn not in m and P + 'numbers::float' not in m:
                            missing.append(n)
                    elif P + 'numbers::float' not in m:
                        missing.append(n)
                else:
                    if not any(P + f in m for f in VAL_ALTS[n]):
                        missing.append(n)
            rep.check(R, key, not missing, f'reaches {want}', f'byte {b:#04x} can start {want} but its dispatch arm (line {arm["l"]}) '
                      f'does not try {missing}', loc)
    # arms wrapped in check_recursion are C05's; here: order inside the number arm (date-time, float, integer)
    # ---- document (per-line dispatch)
    t = term(g, 'document::document')
    disp = pm.find_dispatch(g, t)
    loc = facts.loc(facts.body(P + 'document::document'))
    rows, rest = pm.dispatch_table(g, disp)
    ws = cc(a, 'wschar')
    # justification for excluding wschar: the dispatch is always preceded by a greedy ws
    refs = [last_seg(x['fn']) for x in g.subterms(t) if x['op'] in ('ref', 'call')]
    pw = term(g, 'document::parse_ws')
    greedy = [x for x in g.subterms(term(g, 'trivia::ws')) if x['op'] == 'tok']
    just = refs.count('parse_ws') >= 2 and P + 'trivia::ws' in g.mentions(pw) and len(greedy) == 1 and greedy[0]['max'] == INF and greedy[0]['set'] == ws
    rep.check(R, 'document::document|ws-before-dispatch', just, 'every line dispatch is preceded by a greedy *wschar (parse_ws)',
              'the per-line dispatch is no longer preceded by a greedy whitespace parser', loc)
    want_map = {'comment': (a.first('comment'), 'trivia::comment'), 'table': (a.first('table'), 'table::table'),
                'keyval': (a.first('keyval') - ws, 'document::parse_keyval'), 'newline': (a.first('newline'), 'trivia::newline')}
    for s, arm in rows:
        m = pm.trans_mentions(g, arm['p'])
        for b in sorted(s - ws):
            key = f'document::document|byte {b:#04x}'
            want = [n for n, (fs, fn) in want_map.items() if b in fs]
            if not want:
                rep.check(R, key, not arm_accepts(arm, b), 'cannot start an expression: arm cannot accept it',
                          f'byte {b:#04x} cannot start a comment, table header, key or newline but its line-dispatch arm can accept it', loc)
            else:
                missing = [n for n in want if P + want_map[n][1] not in m]
                rep.check(R, key, not missing, f'reaches {want}', f'byte {b:#04x} starts {want} but its line-dispatch arm does not try {missing}', loc)
    # ---- simple_key
    t = term(g, 'key::simple_key')
    disp = pm.find_dispatch(g, t)
    loc = facts.loc(facts.body(P + 'key::simple_key'))
    rows, rest = pm.dispatch_table(g, disp)
    km = {'basic-string': (a.first('basic-string'), 'strings::basic_string'), 'literal-string': (a.first('literal-string'), 'strings::literal_string'),
          'unquoted-key': (a.first('unquoted-key'), 'key::unquoted_key')}
    for s, arm in rows:
        m = pm.trans_mentions(g, arm['p'])
        for b in sorted(s):
            key = f'key::simple_key|byte {b:#04x}'
            want = [n for n, (fs, fn) in km.items() if b in fs]
            if not want:
                rep.check(R, key, not arm_accepts(arm, b), 'cannot start a key: arm cannot accept it',
                          f'byte {b:#04x} cannot start a key but its arm can accept it', loc)
            else:
                missing = [n for n in want if P + km[n][1] not in m]
                rep.check(R, key, not missing, f'reaches {want}', f'byte {b:#04x} starts {want} but its arm does not try {missing}', loc)
    # ---- newline
    t = term(g, 'trivia::newline')
    disp = pm.find_dispatch(g, t)
    loc = facts.loc(facts.body(P + 'trivia::newline'))
    rows, rest = pm.dispatch_table(g, disp)
    lits = [a.literal(x) for x in a.alternatives('newline')]
    heads = {l[0]: l[1:] for l in lits}
    for s, arm in rows:
        for b in sorted(s):
            key = f'trivia::newline|byte {b:#04x}'
            p = arm['p']
            if b in heads:
                tail = heads[b]
                if len(tail) == 0:
                    okk = pm.nullable_of(g, p) and not pm.consumed_of(g, p)
                else:
                    tk = [x for x in g.subterms(p) if x['op'] in ('tok', 'lit')]
                    okk = len(tk) == 1 and not pm.nullable_of(g, p) and pm.consumed_of(g, p) == frozenset(tail) and \
                        (tk[0]['op'] == 'lit' or (tk[0]['min'], tk[0]['max']) == (1, 1))
                rep.check(R, key, okk, f'continues with {tail!r}', f'after byte {b:#04x} the newline parser does not match exactly {tail!r}', loc)
            else:
                rep.check(R, key, not pm.nullable_of(g, p) and not pm.first_of(g, p), 'fails',
                          f'byte {b:#04x} is not a newline start but its arm can succeed', loc)
    # ---- escape_seq_char: letters of the ABNF
    t = term(g, 'strings::escape_seq_char')
    disp = pm.find_dispatch(g, t)
    loc = facts.loc(facts.body(P + 'strings::escape_seq_char'))
    rows, rest = pm.dispatch_table(g, disp)
    simple = set()
    hexl = set()
    for alt in a.alternatives('escape-seq-char'):
        if alt[0] == 'cat':
            hexl.add(alt[1][0][1])
        else:
            simple.add(alt[1])
    for s, arm in rows:
        p = arm['p']
        for b in sorted(s):
            key = f'strings::escape_seq_char|byte {b:#04x}'
            if b in simple:
                rep.check(R, key, pm.nullable_of(g, p) and not pm.consumed_of(g, p), 'single-letter escape: nothing further consumed',
                          f'escape letter {chr(b)!r} consumes further input or fails', loc)
            elif b in hexl:
                m = pm.trans_mentions(g, p)
                rep.check(R, key, P + 'strings::hexescape' in m, 'unicode escape -> hexescape', f'escape letter {chr(b)!r} does not reach hexescape', loc)
            else:
                rep.check(R, key, not pm.nullable_of(g, p) and not pm.first_of(g, p), 'fails',
                          f'byte {b:#04x} is not an escape letter of TOML 1.0.0 but its arm can succeed', loc)
    # ---- table and integer: byte-string dispatch
    for fn, pats in (('table::table', {ws_stripped_literal(a, 'array-table-open'): 'table::array_table', None: 'table::std_table'}),
                     ('numbers::integer', {a.literal('hex-prefix'): 'numbers::hex_int', a.literal('oct-prefix'): 'numbers::oct_int',
                                           a.literal('bin-prefix'): 'numbers::bin_int', None: 'numbers::dec_int'})):
        t = term(g, fn)
        disp = pm.find_dispatch(g, t)
        loc = facts.loc(facts.body(P + fn))
        got = {}
        try:
            for arm in disp['arms']:
                bp = pm.bytes_pattern(g.ev, arm['pat'])
                if bp not in got:
                    got[bp] = arm
        except Unanalysable as e:
            rep.incomplete(R, f'{fn}|patterns', str(e), loc)
            continue
        for bp, target in pats.items():
            key = f'{fn}|prefix {bp!r}'
            arm = got.get(bp)
            rep.check(R, key, arm is not None and P + target in pm.trans_mentions(g, arm['p']), f'-> {target}',
                      f'prefix {bp!r} does not dispatch to `{target}`', loc)
        extra = [bp for bp in got if bp not in pats]
        rep.check(R, f'{fn}|no-extra-prefix', not extra, 'no other prefix', f'unexpected dispatch prefixes {extra}', loc)
    # number arm of value: ordered date-time, float, integer
    t = term(g, 'value::value')
    alts = [x for x in g.subterms(t) if x['op'] == 'alt']
    order_ok = False
    for x in alts:
        names = []
        for it in x['items']:
            mm = [last_seg(f) for f in g.mentions(it)]
            names.append(mm[0] if mm else '?')
        if names == ['date_time', 'float', 'integer']:
            order_ok = True
    rep.check(R, 'value::value|number-order', order_ok, 'alt((date_time, float, integer)): longer-prefix alternatives first',
              'the number alternatives are not tried in the order date-time, float, integer (ordered choice would commit to a prefix)',
              facts.loc(facts.body(P + 'value::value')))
    t = term(g, 'strings::string')
    alts = [x for x in g.subterms(t) if x['op'] == 'alt']
    names = [[last_seg(f) for f in g.mentions(it)][:1] for it in alts[0]['items']] if alts else []
    rep.check(R, 'strings::string|order', names == [['ml_basic_string'], ['basic_string'], ['ml_literal_string'], ['literal_string']],
              'multi-line forms are tried before single-line forms', f'string alternatives are tried in the order {names}', facts.loc(facts.body(P + 'strings::string')))


EXPECTED_FILTERS = {
    ('datetime::date_mday', 'try_map'): 1, ('datetime::date_month', 'try_map'): 1, ('datetime::time_hour', 'try_map'): 1,
    ('datetime::time_minute', 'try_map'): 1, ('datetime::time_second', 'try_map'): 1, ('datetime::time_secfrac', 'try_map'): 1,
    ('datetime::time_offset', 'verify'): 1,
    ('document::keyval', 'try_map'): 1, ('document::parse_keyval', 'try_map'): 1,
    ('inline_table::inline_table', 'try_map'): 1,
    ('key::key', 'try_map'): 1,
    ('numbers::float', 'try_map'): 1, ('numbers::float', 'verify'): 1,
    ('numbers::integer', 'try_map'): 4,
    ('strings::basic_chars', 'try_map'): 1, ('strings::mlb_content', 'try_map'): 1,
    ('strings::hexescape', 'verify'): 1, ('strings::hexescape', 'verify_map'): 1, ('strings::hexescape', 'try_map'): 1,
    ('strings::literal_string', 'try_map'): 1, ('strings::ml_literal_body', 'try_map'): 1,
    ('table::std_table', 'try_map'): 1, ('table::array_table', 'try_map'): 1,
}


def r5_filters(rep, g, a):
    R = rep.rule('C01/R5', 'the inventory of verdict filters (verify / try_map / verify_map) in the parser equals the reviewed '
                 'list; the offset filter accepts every offset the field ranges allow', floor=18)
    facts = g.facts
    # per parser function, the number of rejecting filters (which of verify / verify_map / try_map spells one is not a verdict matter; whether
    # the rejection carries a message is C15/R6, R7)
    got, exp = {}, {}
    for d, t in g.terms.items():
        if t is None:
            continue
        for kind, i, x in pm.filters(g, t):
            got[short(d)] = got.get(short(d), 0) + 1
    for (fn, kind), n in EXPECTED_FILTERS.items():
        exp[fn] = exp.get(fn, 0) + n
    for fn in sorted(set(got) | set(exp)):
        e = exp.get(fn, 0)
        n = got.get(fn, 0)
        k = f'{fn}|filters'
        if n == e:
            rep.ok(R, k, f'{n} filter(s)')
        elif n < e:
            rep.bad(R, k, f'`{fn}` has {n} verdict filter(s) (verify / verify_map / try_map), the reviewed parser has {e}: a verdict filter was dropped '
                    f'(texts it rejected are now accepted)', facts.loc(facts.body(P + fn)) if facts.has_body(P + fn) else '')
        else:
            rep.bad(R, k, f'`{fn}` has {n} verdict filter(s) (verify / verify_map / try_map), the reviewed parser has {e}: an unreviewed filter can reject '
                    f'valid documents', facts.loc(facts.body(P + fn)) if facts.has_body(P + fn) else '')
    # the offset filter must not reject any (sign, hour 0-23, minute 0-59): decided on the verdicts of time_offset with its sub-parsers' outputs supplied
    from .den import ParseValueInterp, EvalPanic
    b = facts.body(P + 'datetime::time_offset')
    loc = facts.loc(b)
    inp = [p_['name'] for p_ in b.get('params', []) if p_.get('k') == 'p_bind']
    try:
        rej = []
        for sg in (ord('+'), ord('-')):
            for hh in range(24):
                for mm in range(60):
                    r = ParseValueInterp(g.ev, [sg, hh, ord(':'), mm], choices=[1]).run(b['body'], {n_: ('input',) for n_ in inp})
                    if not (isinstance(r, tuple) and len(r) == 3 and r[1].endswith('Result::Ok')):
                        rej.append(f'{chr(sg)}{hh:02}:{mm:02}')
        rep.check(R, 'datetime::time_offset|verify-total', not rej, 'no offset with hour 0-23 and minute 0-59 is rejected (2880 combinations)',
                  f'time_offset rejects in-range offsets {rej[:5]}…', loc)
    except (Unanalysable, EvalPanic, KeyError, IndexError, TypeError) as e:
        rep.incomplete(R, 'datetime::time_offset|verify-total', f'cannot evaluate time_offset: {e}', loc)


def r6_lines(rep, g, a):
    R = rep.rule('C01/R6', 'key/value lines and table headers end in line_trailing (ws [comment] (newline / eof)); the document '
                 'starts with an optional BOM and ends at eof', floor=8)
    facts = g.facts

    def last_item(t):
        while t['op'] in ('map', 'checkrec'):
            t = t['p']
        if t['op'] == 'seq':
            return last_item(t['items'][-1])
        return t

    for fn in ('document::parse_keyval', 'table::std_table', 'table::array_table'):
        t = term(g, fn)
        li = last_item(t)
        rep.check(R, f'{fn}|ends-in-line_trailing', li['op'] == 'ref' and li['fn'] == P + 'trivia::line_trailing',
                  'last member is line_trailing', f'`{fn}` does not end in line_trailing: trailing text after the expression would be accepted',
                  facts.loc(facts.body(P + fn)))
    lt = term(g, 'trivia::line_trailing')
    ok = lt['op'] == 'seq' and lt.get('out') == 0 and len(lt['items']) == 2 and lt['items'][1]['op'] == 'ref' and \
        lt['items'][1]['fn'] == P + 'trivia::line_ending'
    first = lt['items'][0] if lt['op'] == 'seq' else None
    inner_ok = False
    if first is not None:
        inner = first
        while inner['op'] == 'map':
            inner = inner['p']
        if inner['op'] == 'seq' and len(inner['items']) == 2:
            x, y = inner['items']
            inner_ok = x['op'] == 'ref' and x['fn'] == P + 'trivia::ws' and y['op'] == 'opt' and y['p']['op'] == 'ref' and y['p']['fn'] == P + 'trivia::comment'
    rep.check(R, 'trivia::line_trailing|shape', ok and inner_ok, 'terminated((ws, opt(comment)), line_ending)',
              'line_trailing is no longer `ws [comment] line-ending`', facts.loc(facts.body(P + 'trivia::line_trailing')))
    le = term(g, 'trivia::line_ending')
    alts = [x for x in g.subterms(le) if x['op'] == 'alt']
    okle = False
    if alts:
        kinds = []
        for it in alts[0]['items']:
            while it['op'] == 'map':
                it = it['p']
            kinds.append(it['fn'] if it['op'] == 'ref' else it['op'])
        okle = kinds == [P + 'trivia::newline', 'eof']
    rep.check(R, 'trivia::line_ending|shape', okle, 'newline / eof', 'line_ending is no longer `newline / eof`', facts.loc(facts.body(P + 'trivia::line_ending')))
    doc = term(g, 'document::document')
    seq = doc
    while seq['op'] == 'map':
        seq = seq['p']
    ok1 = seq['op'] == 'seq' and seq['items'][0]['op'] == 'opt' and seq['items'][0]['p']['op'] == 'lit'
    ok2 = seq['op'] == 'seq' and seq['items'][-1]['op'] == 'eof'
    rep.check(R, 'document::document|bom', ok1, 'starts with opt(BOM)', 'document no longer starts with an optional byte-order mark', facts.loc(facts.body(P + 'document::document')))
    rep.check(R, 'document::document|eof', ok2, 'ends with eof', 'document no longer requires end of input', facts.loc(facts.body(P + 'document::document')))
    # comment lines end in line_ending
    pc = term(g, 'document::parse_comment')
    names = [x['fn'] for x in g.subterms(pc) if x['op'] == 'ref']
    rep.check(R, 'document::parse_comment|shape', names == [P + 'trivia::comment', P + 'trivia::line_ending'], '(comment, line_ending)',
              f'parse_comment is {names}', facts.loc(facts.body(P + 'document::parse_comment')))


ENTRY_POINTS = [
    'toml::de::from_str',
    '<toml::value::Value as core::str::traits::FromStr>::from_str',
    'toml::table::<impl core::str::traits::FromStr for toml::map::Map<alloc::string::String, toml::value::Value>>::from_str',
    'toml_edit::de::from_str', 'toml_edit::de::from_slice', 'toml_edit::de::Deserializer::<S>::parse',
    '<toml_edit::de::Deserializer as core::str::traits::FromStr>::from_str',
    '<toml_edit::de::value::ValueDeserializer as core::str::traits::FromStr>::from_str',
    '<toml_edit::document::DocumentMut as core::str::traits::FromStr>::from_str',
    '<toml_edit::document::ImDocument<alloc::string::String> as core::str::traits::FromStr>::from_str',
    'toml_edit::document::ImDocument::<S>::parse',
    '<toml_edit::value::Value as core::str::traits::FromStr>::from_str',
    '<toml_edit::item::Item as core::str::traits::FromStr>::from_str',
    '<toml_edit::key::Key as core::str::traits::FromStr>::from_str',
    'toml_edit::key::Key::parse',
]
PARSER_ROOTS = {P + 'parse_document', P + 'parse_value', P + 'parse_key', P + 'parse_key_path'}


def r7_single_parser(rep, facts):
    R = rep.rule('C01/R7', 'every text entry point of both crates reaches the one parser (parse_document / parse_value / '
                 'parse_key / parse_key_path) and winnow is used only inside toml_edit::parser and toml_edit::error', floor=17)
    cg = CallGraph(facts)
    for ep in ENTRY_POINTS:
        if not facts.has_body(ep):
            rep.incomplete(R, f'{ep}|present', f'entry point `{ep}` not found')
            continue
        path = cg.path(ep, PARSER_ROOTS)
        rep.check(R, f'{ep}|reaches-parser', path is not None, 'reaches ' + (path[-1] if path else ''),
                  f'entry point `{ep}` does not reach the toml_edit parser', facts.loc(facts.body(ep)))
    # deserializer entry points with text in the toml crate
    extra = [d for d in facts.bodies if d.startswith('toml::de::') and ('::new' in d or 'from_str' in d or '::parse' in d)]
    offenders = []
    npos = 0
    for d in facts.bodies:
        w = cg.mentions_external(d, 'winnow::')
        if w:
            npos += 1
            if not (d.startswith(P) or d.startswith('toml_edit::error::') or d.startswith('<toml_edit::error::') or 'toml_edit::error::' in d.split(' as ')[0]):
                offenders.append((d, w[:3]))
    rep.check(R, 'winnow|confined', not offenders, f'{npos} bodies mention winnow, all in toml_edit::parser / toml_edit::error',
              f'winnow used outside the parser: {offenders[:4]}')
    rep.check(R, 'winnow|positive-control', npos >= 60, f'{npos} winnow-mentioning bodies found', f'only {npos} winnow-mentioning bodies: query broken')


# parser function -> ABNF rule it transcribes; `modulo` = byte class the function additionally consumes up front for a reviewed reason
RULE_MAP = {
    'trivia::ws': ('ws', None), 'trivia::comment': ('comment', None), 'trivia::newline': ('newline', None),
    'trivia::ws_comment_newline': ('ws-comment-newline', None),
    'strings::string': ('string', None), 'strings::basic_string': ('basic-string', None), 'strings::ml_basic_string': ('ml-basic-string', None),
    'strings::literal_string': ('literal-string', None), 'strings::ml_literal_string': ('ml-literal-string', None), 'strings::escaped': ('escaped', None),
    'strings::escape_seq_char': ('escape-seq-char', None), 'strings::mlb_content': ('mlb-content', None), 'strings::mll_content': ('mll-content', None),
    'strings::mlb_escaped_nl': ('mlb-escaped-nl', None), 'strings::ml_basic_body': ('ml-basic-body', None), 'strings::ml_literal_body': ('ml-literal-body', None),
    'strings::basic_chars': ('basic-char', None),
    'numbers::integer': ('integer', None), 'numbers::dec_int': ('dec-int', None), 'numbers::hex_int': ('hex-int', None), 'numbers::oct_int': ('oct-int', None),
    'numbers::bin_int': ('bin-int', None), 'numbers::float': ('float', None), 'numbers::frac': ('frac', None), 'numbers::exp': ('exp', None),
    'numbers::zero_prefixable_int': ('zero-prefixable-int', None), 'numbers::special_float': ('special-float', None), 'numbers::inf': ('inf', None),
    'numbers::nan': ('nan', None), 'numbers::true_': ('true', None), 'numbers::false_': ('false', None), 'numbers::boolean': ('boolean', None),
    'datetime::date_time': ('date-time', None), 'datetime::full_date': ('full-date', None), 'datetime::partial_time': ('partial-time', None),
    'datetime::time_offset': ('time-offset', None), 'datetime::time_secfrac': ('time-secfrac', None), 'datetime::time_delim': ('time-delim', None),
    'datetime::date_fullyear': ('date-fullyear', None), 'datetime::date_month': ('date-month', None), 'datetime::date_mday': ('date-mday', None),
    'datetime::time_hour': ('time-hour', None), 'datetime::time_minute': ('time-minute', None), 'datetime::time_second': ('time-second', None),
    'array::array': ('array', None), 'inline_table::inline_table': ('inline-table', None), 'key::unquoted_key': ('unquoted-key', None),
    'key::simple_key': ('simple-key', None), 'value::value': ('val', None), 'table::std_table': ('std-table', None), 'table::array_table': ('array-table', None),
    'table::table': ('table', None),
    # key() lexes the whitespace around each segment itself (the ABNF attributes it to dot-sep / keyval-sep / expression)
    'key::key': ('key', 'wschar'), 'document::parse_keyval': ('keyval', 'wschar'), 'inline_table::keyval': ('keyval', 'wschar'),
}


def r8_first_sets(rep, g, a):
    R = rep.rule('C01/R8', 'every parser function that transcribes an ABNF rule has the FIRST set and the nullability of that rule (computed on the '
                 'combinator model, dispatch-aware): a dropped alternative, a dropped opt() or a mandatory token made optional changes one of them', floor=52)
    facts = g.facts
    for fn, (rule, modulo) in sorted(RULE_MAP.items()):
        t = term(g, fn)
        loc = facts.loc(facts.body(P + fn))
        ff = pm.first_of(g, t)
        nn = pm.nullable_of(g, t)
        af = a.first(rule)
        an = a.nullable(rule)
        extra_ok = cc(a, modulo) if modulo else frozenset()
        ok = (ff - extra_ok) == (af - extra_ok) and (af <= ff) and nn == an
        rep.check(R, f'{fn}~{rule}', ok, f'FIRST {fmt_set(ff)}, nullable {nn}',
                  f'`{fn}` transcribes `{rule}` but starts with {fmt_set(ff - af)} in addition / lacks {fmt_set(af - ff)}, nullable {nn} vs {an} in the ABNF', loc)


PREFIX_SPECIAL = {
    # chunked lexing: one call takes a run of unescaped characters, the ABNF rule one character; the call must lie between the rule and 1*rule
    'strings::basic_chars': 'between', 'strings::mlb_content': 'between',
}
PREFIX_EXCLUDE = {
    # over-approximation of the model (a value-level guard it does not see), re-checked structurally below
    'array::array': ({b'[,'}, 'the trailing comma is only tried when the list is non-empty (`if !array.is_empty()` in array_values)'),
    'value::value': ({b'[,'}, 'same as array::array'),
}


def r9_prefix_languages(rep, g, a):
    import os
    import pickle
    R = rep.rule('C01/R9', 'every parser function that transcribes an ABNF rule accepts the same set of 2-byte prefixes as that rule (prefix language of '
                 'length 2 computed exactly on classes, literals, bounds, sequence, choice and repetition; value filters and lookahead over-approximated)', floor=52)
    facts = g.facts
    cache = os.path.join(facts.dir, 'prefix2.pkl')
    ps = None
    if os.path.exists(cache):
        try:
            ps = pickle.load(open(cache, 'rb'))
        except Exception:
            ps = None
    if ps is None:
        ps = g.prefix_sets(2)
        try:
            pickle.dump(ps, open(cache + f'.tmp{os.getpid()}', 'wb'))
            os.rename(cache + f'.tmp{os.getpid()}', cache)
        except OSError:
            pass
    ws = cc(a, 'wschar')

    def show(x):
        x = sorted(x)
        return ', '.join(repr(y)[1:] for y in x[:6]) + (f' … ({len(x)})' if len(x) > 6 else '')
    for fn, (rule, modulo) in sorted(RULE_MAP.items()):
        A = ps.get((P + fn, ()))
        if A is None:
            rep.incomplete(R, f'{fn}~{rule}', 'no prefix set computed')
            continue
        B = a.prefixes(rule, 2)
        loc = facts.loc(facts.body(P + fn))
        if modulo:
            A = frozenset(x for x in A if not (x and x[0] in ws))
        if fn in PREFIX_EXCLUDE:
            A = A - PREFIX_EXCLUDE[fn][0]
        if PREFIX_SPECIAL.get(fn) == 'between':
            B2 = a.prefixes(('rep', 1, INF, ('ref', rule)), 2)
            ok = B <= A <= B2
            detail = f'lacks {show(B - A)}; beyond 1*{rule}: {show(A - B2)}'
        else:
            ok = A == B
            detail = f'accepts in addition {show(A - B)}; lacks {show(B - A)}'
        rep.check(R, f'{fn}~{rule}', ok, f'{len(A)} prefixes', f'`{fn}` and ABNF `{rule}` differ on 2-byte prefixes: {detail}', loc)




def comma_guard(rep, R, facts):
    # the value guard the combinator model does not see: the trailing comma is only tried when the list is non-empty.  Accepted spellings: the
    # optional separator inside `if !list.is_empty() { .. }`, in the else branch of `if list.is_empty()`, or as the right operand of
    # `!list.is_empty() && ..` (and the `len()` comparisons that say the same)
    from .shared import path_to
    from .den import Evaluator
    b = facts.body(P + 'array::array_values')

    def nonempty(c, positive=True):
        """does the condition c say `the list is not empty` (positive) / `the list is empty` (not positive)?"""
        c = peel(c)
        if c.get('k') == 'unary' and c.get('op') == '!':
            return nonempty(c['a'], not positive)
        if c.get('k') == 'mcall' and c.get('name') == 'is_empty':
            return not positive
        if c.get('k') == 'binary' and c.get('op') in ('>', '!=', '>=', '==', '<') and peel(c['a']).get('k') == 'mcall' and peel(c['a']).get('name') == 'len':
            try:
                v = Evaluator(facts).integer(c['b'])
            except Unanalysable:
                return False
            says_nonempty = (c['op'], v) in (('>', 0), ('!=', 0), ('>=', 1))
            says_empty = (c['op'], v) in (('==', 0), ('<', 1))
            return says_nonempty if positive else says_empty
        return False
    okg = False
    seps = [n for n in walk(b['body']) if n.get('k') == 'call' and last_seg((peel(n.get('f', {})).get('path') or '')) == 'opt' and
            any(x.get('k') == 'path' and (x.get('path') or '').endswith('ARRAY_SEP') for x in walk(n))]
    for sp in seps:
        for node, key in (path_to(b['body'], sp) or []):
            if node.get('k') == 'if' and ((key == 'then' and nonempty(node['cond'])) or (key == 'else' and nonempty(node['cond'], False))):
                okg = True
            if node.get('k') == 'binary' and node.get('op') == '&&' and key == 'b' and nonempty(node['a']):
                okg = True
            if node.get('k') == 'binary' and node.get('op') == '||' and key == 'b' and nonempty(node['a'], False):
                okg = True
    rep.check(R, 'array::array_values|comma-needs-element', okg and len(seps) == 1, 'opt(ARRAY_SEP) only tried when the list is non-empty',
              'the trailing comma is accepted in an array without elements (`[,]`)', facts.loc(b))

# expected language of a function when it is not literally its ABNF rule: an ABNF expression over the rule names of spec/toml-1.0.0.abnf
# (`end-of-input` = nothing follows), with the reason
LT = 'ws [ comment ] ( newline / end-of-input )'
REG_EXPECT = {
    'key::key': ('ws key ws', 'key() lexes the whitespace around the dotted key itself (the ABNF attributes it to keyval-sep / std-table-open)'),
    'document::parse_keyval': ('ws keyval ' + LT, 'the document is parsed line-wise: a keyval line is `ws keyval ws [comment]` of `expression` plus its line end'),
    'inline_table::keyval': ('ws keyval ws', 'inline-table-sep / -open / -close whitespace is lexed with the pair'),
    'table::std_table': ('std-table ' + LT, 'header line: `ws table ws [comment]` of `expression` plus its line end'),
    'table::array_table': ('array-table ' + LT, 'header line'),
    'table::table': ('table ' + LT, 'header line'),
    'array::array': ('array / %x5B %x2C ws-comment-newline %x5D',
                     'the model does not see the value guard `if !array.is_empty()` in front of the trailing comma; the guard itself is checked as `comma-needs-element`'),
    'value::value': ('val / %x5B %x2C ws-comment-newline %x5D', 'same as array::array'),
    'document::document': ('[ %xEF.BB.BF ] toml end-of-input', 'optional byte-order mark, then the whole `toml` rule up to the end of input'),
    'trivia::line_trailing': (LT, 'helper rule of the line-wise document parser'),
    'trivia::line_ending': ('newline / end-of-input', 'helper rule of the line-wise document parser'),
}
# chunked lexing: one call takes a run; the call must lie between the rule and 1*rule
REG_BETWEEN = {'strings::basic_chars', 'strings::mlb_content', 'strings::mlb_escaped_nl'}


def _code_stamp():
    """the cached comparison results depend on the analysis code as well as on the tree"""
    import hashlib
    import os
    h = hashlib.sha256()
    here = os.path.dirname(os.path.abspath(__file__))
    for fn in sorted(os.listdir(here)):
        if fn.endswith('.py'):
            h.update(open(os.path.join(here, fn), 'rb').read())
    for extra in ('spec/toml-1.0.0.abnf', 'allow/anchors.json', 'allow/locals.json'):
        fp = os.path.join(os.path.dirname(here), extra)
        if os.path.exists(fp):
            h.update(open(fp, 'rb').read())
    return h.hexdigest()[:12]


def r10_regular_language(rep, g, a, only_prefix=None, rid='C01/R10'):
    import os
    import pickle
    from . import regular as rg
    R = rep.rule(rid, 'exact language agreement: the automaton of every parser function (classes, literals, bounds, sequence, choice, repetition, '
                 'first-byte dispatch, one-byte lookahead, end-of-input, hand-written loops; `val` opaque) accepts exactly the words of its ABNF rule — '
                 'all lengths, up to and including the whole `toml` document rule; a difference is reported with a shortest distinguishing text', floor=58 if only_prefix is None else 10)
    facts = g.facts
    cache = os.path.join(facts.dir, f'regular-{_code_stamp()}.pkl')
    res = None
    if os.path.exists(cache):
        try:
            res = pickle.load(open(cache, 'rb'))
        except Exception:
            res = None
    if res is None:
        res = {}
        sym_a = {'val': 'VAL'}
        sym_g = {P + 'value::value': 'VAL'}
        todo = {fn: (rule, None) for fn, (rule, _) in RULE_MAP.items()}
        for fn, (ex, why) in REG_EXPECT.items():
            todo[fn] = (ex, why)
        for fn, (ex, why) in sorted(todo.items()):
            try:
                if P + fn not in g.terms:
                    res[fn] = ('missing', ex, None, None, [], 0)
                    continue
                n1 = rg.NFA()
                ga = rg.GirAutomata(g, sym_g)
                f1 = ga.build_fn(n1, P + fn)
                aa = rg.AbnfAutomata(a, sym_a)
                n2 = rg.NFA()
                node = aa.expr(ex)
                f2 = aa.build(n2, node)
                if fn in REG_BETWEEN:
                    w1, _, n = rg.compare(n1, f1, *_star1(rg, aa, a, node))
                    _, w2, n_ = rg.compare(n1, f1, n2, f2)
                    n += n_
                else:
                    w1, w2, n = rg.compare(n1, f1, n2, f2)
                res[fn] = ('ok', ex, w1, w2, sorted({k for _, k, _ in ga.approx}), n)
            except rg.Incomplete as e:
                res[fn] = ('incomplete', ex, str(e), None, [], 0)
        try:
            pickle.dump(res, open(cache + f'.tmp{os.getpid()}', 'wb'))
            os.rename(cache + f'.tmp{os.getpid()}', cache)
        except OSError:
            pass
    if only_prefix is None:
        comma_guard(rep, R, facts)
    from .regular import show_word
    for fn, (st, ex, w1, w2, approx, n) in sorted(res.items()):
        if only_prefix is not None and not fn.startswith(only_prefix):
            continue
        key = f'{fn}={ex}'
        if st == 'missing':
            rep.incomplete(R, key, f'parser function `{fn}` not found (renamed or removed)')
            continue
        if st == 'incomplete':
            rep.incomplete(R, key, f'no automaton for `{fn}`: {w1}')
            continue
        loc = facts.loc(facts.body(P + fn))
        ok = w1 is None and w2 is None
        parts = []
        if w1 is not None:
            parts.append(f'the parser function accepts {show_word(w1)}, which {"1*(" + ex + ")" if fn in REG_BETWEEN else "`" + ex + "`"} does not derive')
        if w2 is not None:
            parts.append(f'the grammar derives {show_word(w2)}, which the parser function does not accept')
        rep.check(R, key, ok, f'equal ({n} product states' + (f'; superset at: {", ".join(approx)}' if approx else '; exact') + ')',
                  f'`{fn}` and ABNF `{ex}` denote different languages: ' + '; '.join(parts) + ' (<VAL> stands for any value)', loc)


def _star1(rg, aa, a, node):
    n = rg.NFA()
    f = aa.build(n, ('rep', 1, INF, node))
    return n, f


def rules(rep, facts):
    feats = set(facts.crates.get('toml_edit', {}).get('features', []))
    if 'toml_edit' not in facts.crates or 'parse' not in feats:
        rep.notes.append(f'configuration {facts.config}: parser not compiled, rules skipped.')
        return
    g = pm.model(facts)
    a = Abnf()
    r1_byte_classes(rep, g, a)
    r2_ranges(rep, g, a)
    r3_bounds(rep, g, a)
    r4_dispatch(rep, g, a)
    r5_filters(rep, g, a)
    r6_lines(rep, g, a)
    # R8 (FIRST / nullable) and R9 (2-byte prefixes) were the bounded predecessors of R10; R10 decides the same question exactly for every
    # length and follows helper calls with parser parameters, so the two are no longer evaluated (they only added brittleness)
    r10_regular_language(rep, g, a)
    # R1 pairs the lexical atoms of a function with the ABNF classes by their position in the function; R10 compares the language of the function with its
    # ABNF rule exactly.  Where R10 finds the two equal, the atoms are the right ones wherever they are written (moved into a shared helper, reordered), and a
    # position that no longer pairs up is not a finding.
    # (only where the comparison was exact: a function whose language R10 could only bound from above — a look-ahead, a value filter — may still commit to
    # a prefix and refuse what the grammar allows, and there a new or moved atom stays a finding)
    equal = {o['key'].split('=')[0] for o in rep.rules.get('C01/R10', {}).get('obligations', []) if o['ok'] and '=' in o['key'] and 'exact' in (o.get('detail') or '')}
    moot = [v for v in rep.violations if v['rule'] == 'C01/R1' and any(v['key'].split('|', 1)[-1].startswith(fn + '|') or f'`numbers::{fn.split("::")[-1]}`' in v['detail'] and fn.startswith('numbers::')
                                                                       or f'`{fn}`' in v['detail'] for fn in equal)]
    if moot:
        rep.violations[:] = [v for v in rep.violations if v not in moot]
        if 'C01/R1' in rep.rules:
            rep.rules['C01/R1']['obligations'] = [o for o in rep.rules['C01/R1']['obligations'] if o['ok'] or not any(o['key'].startswith(fn + '|') for fn in equal)]
            rep.rules['C01/R1']['floor'] = min(rep.rules['C01/R1'].get('floor') or 0, len(rep.rules['C01/R1']['obligations'])) or None
        rep.notes.append(f'C01/R1 could not pair {len(moot)} lexical atoms with the ABNF by position ({moot[0]["detail"][:140]}); the functions concerned accept exactly the language of '
                         f'their ABNF rules (C01/R10), so the atoms are the right ones.')
    # what the grammar rules hand to the parser state decides the rest of validity (names defined twice): the semantic actions and the state evaluated on model
    # documents, verdict and tree against an independent decoder (shared with C09/R10)
    from .rules_events import r_verdicts
    r_verdicts(rep, facts, rid='C01/R15')
    if 'toml' in facts.crates:
        r7_single_parser(rep, facts)
    if 'toml' in facts.crates:
        from .rules_c04 import r5_from_slice
        r5_from_slice(rep, facts)
        rep.relabel('C04/R5', 'C01/R7b', 'the byte entry point gives the verdict of the text entry points (invalid UTF-8 is not a TOML document): ')
    if 'unbounded' not in set(facts.crates.get('toml_edit', {}).get('features', [])):
        # a container level charged twice halves the depth of the documents that are accepted
        from .rules_c05 import r1b_charged_once
        r1b_charged_once(rep, g)
        rep.relabel('C05/R1b', 'C01/R12', 'valid documents nested below the documented limit are accepted: ')
    if 'toml_datetime' in facts.crates:
        # the serde front end re-parses every date-time with the standalone parser: its verdicts must be the grammar's
        from .rules_c12 import r1_fields, r2_calendar, r7_shapes
        st = r1_fields(rep, facts, g)
        if st is not None:
            r2_calendar(rep, facts, st)
        r7_shapes(rep, facts)
        for old in ('C12/R1', 'C12/R2', 'C12/R7'):
            rep.relabel(old, 'C01/R11', 'same verdict from both front ends (the serde route re-parses date-times with Datetime::from_str): ' if old == 'C12/R1' else '')
    # semantic validity (what may be defined twice, extended or reopened) is decided by the layer behind the grammar: its walk, header and key/value
    # functions evaluated on model states refuse what TOML forbids and accept what it permits
    from .rules_c09 import r3c_walk_model, r8_attach_model, r9_keyval_model, r6b_opened_table_flags
    r3c_walk_model(rep, facts)
    r6b_opened_table_flags(rep, facts)
    r8_attach_model(rep, facts)
    r9_keyval_model(rep, facts)
    for old_ in ('C09/R3c', 'C09/R6b', 'C09/R8', 'C09/R9'):
        rep.relabel(old_, 'C01/R13', 'documents that redefine or illegally extend a table are refused, the permitted orders are accepted: ' if old_ == 'C09/R3c' else '')
    if facts.config == 'default':
        from .rules_c18 import r4_unbounded
        r4_unbounded(rep)
        rep.relabel('C18/R4', 'C01/R14', 'with the `unbounded` feature the same documents are accepted (and deeper ones): ')


def run(tier):
    return run_property(PROP, tier, rules, configs_thorough=['default', 'perf', 'preserve_order', 'unbounded', 'edit_parse', 'toml_parse'])
