"""Call graph over the typed HIR: resolved calls plus function-item mentions, with
class-hierarchy expansion of unresolved trait-method calls restricted to workspace impls."""
from .core import walk, strip_generics


class CallGraph:
    def __init__(self, facts):
        self.facts = facts
        self.raw = {}
        self.trait_index = {}
        for imp in facts.impls:
            t = imp.get('trait')
            if not t:
                continue
            for it in imp['items']:
                self.trait_index.setdefault(t + '::' + it['name'], []).append(it['def'])
        for d, b in facts.bodies.items():
            names = set()
            for n in walk(b['body']):
                k = n.get('k')
                if k in ('mcall', 'binary', 'unary', 'index', 'assignop'):
                    for key in ('resolved', 'callee'):
                        if n.get(key):
                            names.add(n[key])
                    # s.parse::<T>() dispatches to <T as FromStr>::from_str
                    if (n.get('callee') or '').endswith('str>::parse') and n.get('gargs'):
                        names.add(f"<{n['gargs'][0]} as core::str::traits::FromStr>::from_str")
                elif k == 'path' and n.get('res') in ('Fn', 'AssocFn'):
                    for key in ('resolved', 'path'):
                        if n.get(key):
                            names.add(n[key])
                elif k == 'closure':
                    pass
            self.raw[d] = names
        self._edges = {}
        self.by_stripped = {}
        for d in facts.bodies:
            self.by_stripped.setdefault(strip_generics(d), []).append(d)

    def edges(self, d):
        if d in self._edges:
            return self._edges[d]
        out = set()
        for n in self.raw.get(d, ()):
            n0 = strip_generics(n)
            if n in self.facts.bodies:
                out.add(n)
            elif n0 in self.facts.bodies:
                out.add(n0)
            elif n0 in self.by_stripped:
                out.update(self.by_stripped[n0])
            if n0 in self.trait_index:
                out.update(x for x in self.trait_index[n0] if x in self.facts.bodies)
        self._edges[d] = out
        return out

    def reach(self, roots, stop=None):
        seen = set()
        stack = [r for r in roots]
        while stack:
            x = stack.pop()
            if x in seen:
                continue
            seen.add(x)
            if stop and x in stop:
                continue
            stack.extend(self.edges(x))
        return seen

    def path(self, src, dst_set):
        """one shortest path from src to any member of dst_set (list of defs) or None"""
        from collections import deque
        prev = {src: None}
        q = deque([src])
        while q:
            x = q.popleft()
            if x in dst_set and x != src:
                out = []
                while x is not None:
                    out.append(x)
                    x = prev[x]
                return list(reversed(out))
            for y in self.edges(x):
                if y not in prev:
                    prev[y] = x
                    q.append(y)
        return None

    def mentions_external(self, d, prefix):
        """raw names with the given prefix mentioned by body d"""
        return sorted(n for n in self.raw.get(d, ()) if n.startswith(prefix))
