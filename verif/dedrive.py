"""dedrive.py — the reading half of the serde data model as a driver for the structural interpreter.

A target type `T: Deserialize` is, to a Deserializer, the hint it asks with (`deserialize_struct`, `deserialize_option`, ..) plus a Visitor that
accepts some of the `visit_*` calls.  DeInterp lets a model type ('ty', kind, ..) stand for such a T: `deserialize(ty, de)` asks the workspace
deserializer `de` the way serde's derive does; whenever the evaluated workspace code calls `visitor.visit_*(..)` or `seed.deserialize(..)` on
the model visitor / seed, the driver answers like the derived visitor would (pulling elements, keys and values through the workspace's own
SeqAccess / MapAccess / EnumAccess / VariantAccess impls).  The result is a model value in the notation of serdedrive.sv.
"""
from .core import peel, last_seg, strip_generics
from .den import Unanalysable, EvalPanic, VecObj
from .places import deref, plain, SOME, NONE
from .serdedrive import SerdeInterp, sv, is_ok, is_err, OK, ERR, INT_MAX, INT_MIN

DE = 'serde::de::Deserializer'
INTS = ('i8', 'i16', 'i32', 'i64', 'u8', 'u16', 'u32', 'u64')


def ty(kind, *rest):
    return ('ty', kind) + rest


def ok(v):
    return ('ctor', OK, (v,))


def err(what):
    return ('ctor', ERR, (('de-error', what),))


def type_of_sample(s):
    """the Rust type a sample value (serdedrive.sv) is a value of"""
    k = s[1]
    if k in ('bool', 'char', 'str', 'f32', 'f64') or k in INTS:
        return ty('f64' if k == 'f32' else k)
    if k == 'none':
        return ty('option', ty('i64'))
    if k == 'some':
        return ty('option', type_of_sample(s[2]))
    if k == 'unit':
        return ty('unit')
    if k == 'unit_struct':
        return ty('unit_struct', s[2])
    if k == 'newtype_struct':
        return ty('newtype_struct', s[2], type_of_sample(s[3]))
    if k == 'seq':
        return ty('seq', type_of_sample(s[2][0]) if s[2] else ty('i64')) if len({str(type_of_sample(x)) for x in s[2]}) <= 1 else ty('seq_any', [type_of_sample(x) for x in s[2]])
    if k == 'tuple':
        return ty('tuple', [type_of_sample(x) for x in s[2]])
    if k == 'tuple_struct':
        return ty('tuple_struct', s[2], [type_of_sample(x) for x in s[3]])
    if k == 'map':
        kn = lambda a: a[4] if a[1] == 'unit_variant' else a[2]
        kt = ty('enum', 'K', [('A', 'unit'), ('B', 'unit')]) if s[2] and s[2][0][0][1] == 'unit_variant' else ty('str')
        return ty('map', kt, {kn(a): type_of_sample(b) for a, b in s[2]})
    if k == 'struct':
        return ty('struct', s[2], [(f, type_of_sample(x)) for f, x in s[3]])
    # one enum type with the four variants of the samples; the payload types of the variant at hand come from the sample
    variants = {'A': ('unit',), 'B': ('newtype', ty('i64')), 'C': ('tuple', [ty('i64'), ty('str')]), 'D': ('struct', [('a', ty('i64')), ('b', ty('option', ty('i64')))])}
    if k == 'unit_variant':
        pass
    elif k == 'newtype_variant':
        variants[s[4]] = ('newtype', type_of_sample(s[5]))
    elif k == 'tuple_variant':
        variants[s[4]] = ('tuple', [type_of_sample(x) for x in s[5]])
    elif k == 'struct_variant':
        variants[s[4]] = ('struct', [(f, type_of_sample(x)) for f, x in s[5]])
    return ty('enum', s[2], [(n,) + v for n, v in variants.items()])


def value_of_sample(s):
    """the decoded value a sample denotes, in the notation the driver answers in"""
    k = s[1]
    if k in INTS:
        return ('int', s[2])
    if k in ('f32', 'f64'):
        return ('float', s[2])
    if k in ('bool',):
        return ('bool', s[2])
    if k in ('str', 'char'):
        return ('str', s[2])
    if k == 'none':
        return ('none',)
    if k == 'some':
        return ('some', value_of_sample(s[2]))
    if k == 'unit':
        return ('unit',)
    if k == 'unit_struct':
        return ('unit',)
    if k == 'newtype_struct':
        return value_of_sample(s[3])
    if k in ('seq', 'tuple'):
        return ('seq', [value_of_sample(x) for x in s[2]])
    if k == 'tuple_struct':
        return ('seq', [value_of_sample(x) for x in s[3]])
    if k == 'map':
        return ('map', sorted(((a[4] if a[1] == 'unit_variant' else a[2]), value_of_sample(b)) for a, b in s[2]))
    if k == 'struct':
        return ('map', sorted((f, value_of_sample(x)) for f, x in s[3] if x[1] != 'none'))
    if k == 'unit_variant':
        return ('variant', s[4], ('unit',))
    if k == 'newtype_variant':
        return ('variant', s[4], value_of_sample(s[5]))
    if k == 'tuple_variant':
        return ('variant', s[4], ('seq', [value_of_sample(x) for x in s[5]]))
    if k == 'struct_variant':
        return ('variant', s[4], ('map', sorted((f, value_of_sample(x)) for f, x in s[5] if x[1] != 'none')))
    return ('?', k)


class DeInterp(SerdeInterp):
    # -- asking the deserializer ---------------------------------------------------------------------------------------------
    def trait_like(self, prefix, recv, name, args):
        """call `name` of the workspace impl of the trait whose path starts with `prefix` (serde::de::MapAccess<'de>, ..) for the receiver's type"""
        rv = deref(recv)
        if isinstance(rv, tuple) and len(rv) == 2 and rv[0] == 'prim-de' and prefix == DE:
            # serde's own deserializers over a primitive (`"text".into_deserializer()`, BorrowedStrDeserializer): whatever is asked, the primitive is presented
            v = rv[1]
            visitor = args[-1]
            if name == 'deserialize_enum' and isinstance(v, str):
                return self.visit(visitor[1], 'visit_enum', [('prim-enum', v)]) if isinstance(visitor, tuple) and visitor[0] == 'visitor' else self._call_visitor(visitor, 'visit_enum', [('prim-enum', v)])
            vis = 'visit_bool' if isinstance(v, bool) else 'visit_i64' if isinstance(v, int) else 'visit_f64' if isinstance(v, float) else 'visit_str'
            return self._call_visitor(visitor, vis, [v])
        if isinstance(rv, tuple) and len(rv) == 2 and rv[0] == 'seq-de' and prefix == DE:
            # serde's SeqDeserializer over a Vec of values (`values.into_deserializer()`): presents a sequence whose elements are deserializers themselves
            return self._call_visitor(args[-1], 'visit_seq', [['seq-access', list(rv[1])]])
        if isinstance(rv, list) and len(rv) == 2 and rv[0] == 'seq-access':
            if name == 'next_element_seed':
                if not rv[1]:
                    return ok(('ctor', NONE))
                x = rv[1].pop(0)
                seed = deref(args[0])
                if not (isinstance(seed, tuple) and seed[0] == 'seed'):
                    raise Unanalysable('a workspace seed over serde\'s SeqDeserializer')
                r = self.deserialize(seed[1], x)
                return ok(('ctor', SOME, (r[2][0],))) if is_ok(r) else r
            if name == 'size_hint':
                return ('ctor', SOME, (len(rv[1]),))
        if isinstance(rv, tuple) and len(rv) == 2 and rv[0] == 'prim-enum':
            if name == 'variant_seed':
                r = self.deserialize(args[0][1], ('prim-de', rv[1])) if isinstance(args[0], tuple) and args[0][0] == 'seed' else None
                if r is None:
                    raise Unanalysable('variant_seed with a workspace seed over a primitive enum access')
                return ok((r[2][0], ('prim-unit-variant',))) if is_ok(r) else r
        if isinstance(rv, tuple) and rv == ('prim-unit-variant',):
            if name == 'unit_variant':
                return ok(())
            return err('invalid type: unit variant')
        t = self.type_of(recv)
        for imp in self.facts.impls:
            tr = imp.get('trait') or ''
            if not tr.startswith(prefix):
                continue
            st = (imp.get('self_ty') or '').replace('&mut ', '').replace('&', '').strip().split('<')[0]
            if st == t:
                for it in imp['items']:
                    if it['name'] == name and self.facts.has_body(it['def']):
                        return self.apply_fn(self.facts.body(it['def']), [recv] + list(args))
        raise Unanalysable(f'no workspace impl of {prefix}::{name} for `{t}`')

    def deserialize(self, t, de):
        """what `T::deserialize(de)` does for the model type t"""
        k = t[1]
        V = ('visitor', t)
        D = lambda name, *a: self.trait_like(DE, de, name, list(a) + [V])
        if k in INTS or k in ('bool', 'f64', 'char'):
            return D('deserialize_' + k)
        if k == 'str':
            return D('deserialize_string')
        if k == 'option':
            return D('deserialize_option')
        if k == 'unit':
            return D('deserialize_unit')
        if k == 'unit_struct':
            return D('deserialize_unit_struct', t[2])
        if k == 'newtype_struct':
            return D('deserialize_newtype_struct', t[2])
        if k in ('seq', 'seq_any'):
            return D('deserialize_seq')
        if k == 'tuple':
            return D('deserialize_tuple', len(t[2]))
        if k == 'tuple_struct':
            return D('deserialize_tuple_struct', t[2], len(t[3]))
        if k == 'map':
            return D('deserialize_map')
        if k == 'struct':
            return D('deserialize_struct', t[2], tuple(f for f, _ in t[3]))
        if k == 'enum':
            return D('deserialize_enum', t[2], tuple(v[0] for v in t[3]))
        if k in ('field_id', 'variant_id'):
            return D('deserialize_identifier')
        if k == 'ignored':
            return D('deserialize_ignored_any')
        raise Unanalysable(f'target type kind `{k}`')

    # -- answering as the visitor --------------------------------------------------------------------------------------------
    def visit(self, t, name, args):
        k = t[1]
        a = [deref(x) for x in args]
        bad = lambda: err(f'invalid type: {name[6:]} for {k}')
        if k == 'ignored':
            if name == 'visit_seq':
                while True:
                    r = self.trait_like('serde::de::SeqAccess', args[0], 'next_element_seed', [('seed', ty('ignored'))])
                    if not is_ok(r):
                        return r
                    if deref(r[2][0]) == ('ctor', NONE):
                        return ok(('ignored',))
            if name == 'visit_map':
                while True:
                    r = self.trait_like('serde::de::MapAccess', args[0], 'next_key_seed', [('seed', ty('ignored'))])
                    if not is_ok(r):
                        return r
                    if deref(r[2][0]) == ('ctor', NONE):
                        return ok(('ignored',))
                    r = self.trait_like('serde::de::MapAccess', args[0], 'next_value_seed', [('seed', ty('ignored'))])
                    if not is_ok(r):
                        return r
            if name in ('visit_some', 'visit_newtype_struct'):
                return self.deserialize(ty('ignored'), args[0])
            if name == 'visit_enum':
                raise Unanalysable('IgnoredAny over an enum access')
            return ok(('ignored',))
        if k in INTS:
            if name in ('visit_i64', 'visit_u64', 'visit_i8', 'visit_i16', 'visit_i32', 'visit_u8', 'visit_u16', 'visit_u32') and isinstance(a[0], int) and not isinstance(a[0], bool):
                return ok(('int', a[0])) if INT_MIN[k] <= a[0] <= INT_MAX[k] else err(f'invalid value: integer `{a[0]}`, expected {k}')
            return bad()
        if k == 'f64':
            if name in ('visit_f64', 'visit_f32') and isinstance(a[0], float):
                return ok(('float', a[0]))
            if name in ('visit_i64', 'visit_u64') and isinstance(a[0], int) and not isinstance(a[0], bool):
                return ok(('float', float(a[0])))
            return bad()
        if k == 'bool':
            return ok(('bool', a[0])) if name == 'visit_bool' and isinstance(a[0], bool) else bad()
        if k in ('str', 'char'):
            if name in ('visit_str', 'visit_string', 'visit_borrowed_str', 'visit_char') and isinstance(a[0], str):
                if k == 'char' and len(a[0]) != 1:
                    return err('invalid value: expected a character')
                return ok(('str', a[0]))
            return bad()
        if k == 'option':
            if name in ('visit_none', 'visit_unit'):
                return ok(('none',))
            if name == 'visit_some':
                r = self.deserialize(t[2], args[0])
                return ok(('some', r[2][0])) if is_ok(r) else r
            return bad()
        if k in ('unit', 'unit_struct'):
            return ok(('unit',)) if name == 'visit_unit' else bad()
        if k == 'newtype_struct':
            if name == 'visit_newtype_struct':
                return self.deserialize(t[3], args[0])
            if name == 'visit_seq':
                return self._seq(args[0], [t[3]], exact=True, unwrap_single=True)
            return bad()
        if k == 'seq':
            return self._seq(args[0], t[2]) if name == 'visit_seq' else bad()
        if k == 'seq_any':
            return self._seq(args[0], t[2], exact=True) if name == 'visit_seq' else bad()
        if k == 'tuple':
            return self._seq(args[0], t[2], exact=True) if name == 'visit_seq' else bad()
        if k == 'tuple_struct':
            return self._seq(args[0], t[3], exact=True) if name == 'visit_seq' else bad()
        if k == 'map':
            if name != 'visit_map':
                return bad()
            out = []
            while True:
                r = self.trait_like('serde::de::MapAccess', args[0], 'next_key_seed', [('seed', t[2])])
                if not is_ok(r):
                    return r
                kk = deref(r[2][0])
                if kk == ('ctor', NONE):
                    return ok(('map', sorted(out)))
                kv = kk[2][0]
                kname_ = kv[1] if kv[0] != 'variant' else kv[1]
                vt = t[3].get(kname_, ty('ignored')) if isinstance(t[3], dict) else t[3]
                r = self.trait_like('serde::de::MapAccess', args[0], 'next_value_seed', [('seed', vt)])
                if not is_ok(r):
                    return r
                out.append((kname_, r[2][0]))
        if k == 'struct':
            fields = t[3]
            if name == 'visit_seq':
                r = self._seq(args[0], [ft for _, ft in fields], exact=True)
                return ok(('map', sorted((f, x) for (f, _), x in zip(fields, r[2][0][1]) if x != ('none',)))) if is_ok(r) else r
            if name != 'visit_map':
                return bad()
            got = {}
            while True:
                r = self.trait_like('serde::de::MapAccess', args[0], 'next_key_seed', [('seed', ty('field_id', [f for f, _ in fields]))])
                if not is_ok(r):
                    return r
                kk = deref(r[2][0])
                if kk == ('ctor', NONE):
                    break
                fid = kk[2][0]
                if fid[0] == 'field' and fid[1] in got:
                    return err(f'duplicate field `{fid[1]}`')
                ft = dict(fields).get(fid[1]) if fid[0] == 'field' else ty('ignored')
                r = self.trait_like('serde::de::MapAccess', args[0], 'next_value_seed', [('seed', ft)])
                if not is_ok(r):
                    return r
                if fid[0] == 'field':
                    got[fid[1]] = r[2][0]
            out = []
            for f, ft in fields:
                if f in got:
                    if got[f] != ('none',):
                        out.append((f, got[f]))
                elif ft[1] != 'option':
                    return err(f'missing field `{f}`')
            return ok(('map', sorted(out)))
        if k in ('field_id', 'variant_id'):
            if name in ('visit_str', 'visit_string', 'visit_borrowed_str') and isinstance(a[0], str):
                if a[0] in t[2]:
                    return ok(('field', a[0]))
                return ok(('other', a[0])) if k == 'field_id' else err(f'unknown variant `{a[0]}`')
            if name in ('visit_u64', 'visit_i64') and isinstance(a[0], int):
                return ok(('field', t[2][a[0]])) if 0 <= a[0] < len(t[2]) else err('invalid index')
            return bad()
        if k == 'enum':
            if name != 'visit_enum':
                return bad()
            acc = deref(args[0])
            if isinstance(acc, tuple) and len(acc) == 2 and acc[0] == 'prim-de':
                acc = ('prim-enum', acc[1])
            r = self.trait_like('serde::de::EnumAccess', acc, 'variant_seed', [('seed', ty('variant_id', [v[0] for v in t[3]]))])
            if not is_ok(r):
                return r
            vid, access = deref(r[2][0])
            vid = deref(vid)
            var = [v for v in t[3] if v[0] == vid[1]][0]
            if var[1] == 'unit':
                r = self.trait_like('serde::de::VariantAccess', access, 'unit_variant', [])
                return ok(('variant', var[0], ('unit',))) if is_ok(r) else r
            if var[1] == 'newtype':
                r = self.trait_like('serde::de::VariantAccess', access, 'newtype_variant_seed', [('seed', var[2])])
            elif var[1] == 'tuple':
                r = self.trait_like('serde::de::VariantAccess', access, 'tuple_variant', [len(var[2]), ('visitor', ty('tuple', var[2]))])
            else:
                r = self.trait_like('serde::de::VariantAccess', access, 'struct_variant', [tuple(f for f, _ in var[2]), ('visitor', ty('struct', var[0], var[2]))])
            return ok(('variant', var[0], r[2][0])) if is_ok(r) else r
        raise Unanalysable(f'visitor for target kind `{k}`')

    def _seq(self, access, elem_types, exact=False, unwrap_single=False):
        out = []
        i = 0
        while True:
            if exact and i >= len(elem_types):
                break
            et = elem_types[i] if exact else elem_types
            r = self.trait_like('serde::de::SeqAccess', access, 'next_element_seed', [('seed', et)])
            if not is_ok(r):
                return r
            x = deref(r[2][0])
            if x == ('ctor', NONE):
                if exact:
                    return err(f'invalid length {i}, expected {len(elem_types)}')
                break
            out.append(x[2][0])
            i += 1
            if i > 64:
                raise EvalPanic('a sequence access never announces its end')
        return ok(out[0]) if unwrap_single else ok(('seq', out))

    def _call_visitor(self, visitor, name, args):
        visitor = deref(visitor)
        if isinstance(visitor, tuple) and len(visitor) == 2 and visitor[0] == 'visitor':
            return self.visit(visitor[1], name, args)
        return self.trait_like('serde::de::Visitor', visitor, name, args)

    # -- evaluation hooks ----------------------------------------------------------------------------------------------------
    def val(self, e, env):
        if e.get('k') == 'call':
            f = peel(e.get('f', {}))
            p = strip_generics(f.get('path') or '')
            if p.startswith('serde::de::Deserializer::deserialize_') and len(e.get('args', [])) >= 2:
                args = [self.val(a, env) for a in e['args']]
                return self.trait_like(DE, args[0], last_seg(p), args[1:])
            if p == 'serde::de::Error::custom' and len(e.get('args', [])) == 1 and not e.get('resolved'):
                # the error type is the access object's own (a type parameter of the visitor): an error value carrying the message
                return ('de-error', deref(self.val(e['args'][0], env)))
            if p.startswith('serde::de::value::') and last_seg(p) == 'new' and len(e.get('args', [])) == 1:
                a0 = deref(self.val(e['args'][0], env))
                if isinstance(a0, (str, int, float, bool)):
                    return ('prim-de', a0)
        return super().val(e, env)

    def _mcall(self, e, env):
        name = e.get('name') or ''
        if name in ('span', 'set_span', 'add_key', 'message', 'set_raw', 'set_original'):
            recv = deref(self.val(e['recv'], env))
            if isinstance(recv, tuple) and len(recv) == 2 and recv[0] == 'de-error':
                # an error raised by the model visitor (`invalid type`, `missing field`, ..) travelling through the deserializer's error decoration
                for a in e.get('args', []):
                    self.val(a, env)
                return ('ctor', NONE) if name == 'span' else recv[1] if name == 'message' else ()
            return super()._mcall(dict(e, recv=self._bindnode(recv, env, e['recv'])), env)
        if name.startswith('deserialize_') or name == 'contains':
            recv = deref(self.val(e['recv'], env))
            if isinstance(recv, tuple) and len(recv) == 2 and recv[0] == 'prim-de' and name.startswith('deserialize_'):
                return self.trait_like(DE, recv, name, [self.val(a, env) for a in e.get('args', [])])
            if name == 'contains' and len(e.get('args', [])) == 1 and isinstance(recv, tuple) and all(isinstance(x, str) for x in recv):
                from .rules_serdeflow import kname
                return kname(self.val(e['args'][0], env)) in recv
            return super()._mcall(dict(e, recv=self._bindnode(recv, env, e['recv'])), env)
        if name == 'into_deserializer' and not e.get('args'):
            recv = deref(self.val(e['recv'], env))
            if isinstance(recv, (str, int, float, bool)):
                return ('prim-de', recv)
            if isinstance(recv, VecObj) or (isinstance(recv, (tuple, list)) and not (recv and recv[0] in ('ctor', 'struct', 'prim-de', 'seq-de'))):
                return ('seq-de', list(recv.items if isinstance(recv, VecObj) else recv))
            node = dict(e, recv=self._bindnode(recv, env, e['recv']))
            if self._workspace_method(e) is not None:
                return super()._mcall(node, env)
            from .rules_serdeflow import kname
            if isinstance(kname(recv), str):
                return ('prim-de', kname(recv))         # a Key / InternalString derefs to its text
            return self.trait_like('serde::de::IntoDeserializer', recv, 'into_deserializer', [])
        if name.startswith('visit_') or name == 'deserialize' or name == 'expecting':
            recv = deref(self.val(e['recv'], env))
            if isinstance(recv, tuple) and len(recv) == 2 and recv[0] == 'visitor' and name.startswith('visit_'):
                return self.visit(recv[1], name, [self.val(a, env) for a in e.get('args', [])])
            if isinstance(recv, tuple) and len(recv) == 2 and recv[0] == 'seed' and name == 'deserialize':
                return self.deserialize(recv[1], self.val(e['args'][0], env))
            return super()._mcall(dict(e, recv=self._bindnode(recv, env, e['recv'])), env)
        return super()._mcall(e, env)
