"""C18 — cargo feature choices change performance or ordering only (decided part: every
configuration type-checks, feature gates are confined to the documented switch points, the
storage rules and the public API of the switched types hold in every configuration)."""
import re

from .core import run_property, AnalysisIncomplete, walk, peel, last_seg, calls_in, callee_all, strip_generics, src_facts, CONFIGS, Facts, facts_dir, Report, item_scope
from .shared import order_ops
import os
import time
import traceback

PROP = 'C18'


def feats_of(pred):
    return sorted(set(re.findall(r'feature = "([a-z_]+)"', pred)))


# body-level forks (a cfg on a statement / expression / block) that were reviewed; anything else is a behavioural fork
BODY_FORKS = {
    ('crates/toml/src/map.rs', '<Map>::remove', 'preserve_order'): 'documented: shift_remove under preserve_order, BTreeMap::remove otherwise',
    ('crates/toml/src/map.rs', '<OccupiedEntry>::remove', 'preserve_order'): 'documented: shift_remove under preserve_order',
    ('crates/toml_edit/src/internal_string.rs', '<From for InternalString>::from', 'perf'): 'string storage only (kstring vs String)',
    ('crates/toml_edit/src/parser/error.rs', '<CustomError>::duplicate_key', 'display'): 'error-message text only (key repr needs the display feature)',
    ('crates/toml_edit/src/parser/mod.rs', 'prelude::<RecursionCheck>::check_depth', 'unbounded'): 'documented: unbounded removes the recursion limit',
    ('crates/toml_edit/src/parser/mod.rs', 'prelude::<RecursionCheck>::enter', 'unbounded'): 'documented: unbounded removes the recursion limit',
    ('crates/toml_edit/src/parser/mod.rs', 'prelude::<RecursionCheck>::exit', 'unbounded'): 'documented: unbounded removes the recursion limit',
}
# where each behaviour-switching feature may appear at all
CONFINED = {
    'perf': {'crates/toml_edit/src/internal_string.rs'},
    'preserve_order': {'crates/toml/src/map.rs'},
    'unbounded': {'crates/toml_edit/src/parser/mod.rs', 'crates/toml_edit/src/parser/error.rs'},
}
# exact gate set of `unbounded` (scope, node kind, name)
UNBOUNDED_GATES = {
    ('RecursionCheck', 'field', 'current'), ('', 'item:const', 'LIMIT'),
    ('<RecursionCheck>::check_depth', 'expr:if', ''), ('<RecursionCheck>::enter', 'expr:block', ''),
    ('<RecursionCheck>::exit', 'expr:block', ''), ('CustomError', 'variant', 'RecursionLimitExceeded'),
}
# item-level forks (same item defined twice under complementary cfgs) that were reviewed
ITEM_FORKS = {
    ('crates/toml/src/map.rs', 'MapImpl'), ('crates/toml/src/map.rs', 'VacantEntryImpl'), ('crates/toml/src/map.rs', 'OccupiedEntryImpl'),
    ('crates/toml/src/map.rs', 'IterImpl'), ('crates/toml/src/map.rs', 'IterMutImpl'), ('crates/toml/src/map.rs', 'IntoIterImpl'),
    ('crates/toml/src/map.rs', 'KeysImpl'), ('crates/toml/src/map.rs', 'ValuesImpl'), ('crates/toml/src/map.rs', 'with_capacity'),
    ('crates/toml_edit/src/internal_string.rs', 'Inner'),
    ('crates/toml/src/edit.rs', 'de'), ('crates/toml/src/edit.rs', 'ser'),
}


def at_switch_point(src, c, feature):
    """the documented switch point is an item, not a file: the reviewed gates of `unbounded` keep their standing when the counter type
    moves to another module of the parser"""
    return feature == 'unbounded' and '/toml_edit/src/parser/' in c['file'] and _on_counter(src, c)


def _on_counter(src, c):
    """the gate sits on the recursion counter: the RecursionCheck type and its impls, the LIMIT constant, the error variant raised by it"""
    sc = item_scope(src, c)
    return (sc, c['node'], c['name']) in UNBOUNDED_GATES or 'RecursionCheck' in sc or c['name'] in ('RecursionCheck', 'LIMIT', 'RecursionLimitExceeded')


def r2_census(rep, repo):
    R = rep.rule('C18/R2', 'feature gates are confined: perf only in internal_string, preserve_order only in toml::map, unbounded exactly on the '
                 'recursion counter; every other gate removes whole items, except the reviewed body-level and item-level forks', floor=150)
    src = src_facts(repo)
    cfgs = [c for c in src['cfgs'] if 'test' not in c['scope'].split('::')[:1] and c['pred'] != 'test']
    seen_body = set()
    n = 0
    for c in cfgs:
        fs = feats_of(c['pred'])
        if not fs and c['attr'] != 'cfg!':
            if 'debug_assertions' in c['pred'] or 'docsrs' in c['pred'] or c['pred'] == 'test':
                continue
        n += 1
        key = f"{c['file']}|{c['scope']}|{c['node']}|{c['name']}|{c['pred']}"
        loc = f"{c['file']}:{c['line']}"
        for f in fs:
            if f in CONFINED and c['file'] not in CONFINED[f] and not at_switch_point(src, c, f):
                rep.bad(R, key + '|confined', f'feature `{f}` is tested in `{c["file"]}` ({c["scope"] or "module level"}): outside its documented switch point '
                        f'{sorted(CONFINED[f])}, so the feature can change behaviour there', loc)
        body_level = not (c['node'].startswith('item') or c['node'] in ('file', 'field', 'variant'))
        if c['attr'] == 'cfg_attr':
            rep.ok(R, key, 'cfg_attr (attributes only)', loc)
            continue
        if body_level:
            if c['attr'] == 'cfg!' and 'debug_assertions' in c['pred']:
                rep.ok(R, key, 'debug_assertions: checked vs unchecked UTF-8 conversion of bytes already filtered to ASCII (C04/R3)', loc)
                continue
            why = None
            for f in fs:
                why = why or BODY_FORKS.get((c['file'], c['scope'], f))
            if not why and fs and all(f in CONFINED and (c['file'] in CONFINED[f] or at_switch_point(src, c, f)) for f in fs):
                why = 'inside the documented switch point of the feature (the module as a whole is compared across configurations by R3 / R3b / R3c)'
            if why:
                seen_body.add((c['file'], c['scope']))
                rep.ok(R, key, 'reviewed body-level fork: ' + why, loc)
            else:
                rep.bad(R, key + '|fork', f'`{c["attr"]}({c["pred"]})` on a {c["node"]} inside `{c["scope"]}` ({c["file"]}): a feature now selects between two '
                        f'behaviours inside a function body; only whole items may be gated outside the reviewed switch points', loc)
        else:
            rep.ok(R, key, 'gates a whole item / field / file', loc)
    # exact gate set of `unbounded`
    # `unbounded` is tested on the recursion counter only (where exactly — fields, blocks, whole impls — is the code's business); what the two builds then do is
    # decided by evaluation (R2b)
    got = [c for c in cfgs if 'unbounded' in feats_of(c['pred'])]
    off = sorted({(c['file'], item_scope(src, c), c['node'], c['name']) for c in got if not _on_counter(src, c)})
    rep.check(R, 'unbounded|gate-set', got and not off, f'{len(got)} gates, all on the recursion counter', f'feature `unbounded` is tested at {off} besides the recursion counter' if off else
              'no `unbounded` gate found: the feature does nothing')
    # complementary item definitions
    dup = {}
    for it in src['items']:
        # a module is a namespace: what is defined inside both twins is compared item by item (they share file and scope)
        if it['kind'] in ('use', 'impl', 'extern_crate', 'macro', 'mod') or it['scope'].startswith('test') or '::test' in it['scope']:
            continue
        if it['cfg']:
            dup.setdefault((it['file'], it['scope'], it['kind'], it['name']), []).append(tuple(it['cfg']))
    for (file, scope, kind, name), v in sorted(dup.items()):
        if len(v) > 1 and len(set(v)) > 1:
            ok = (file, name) in ITEM_FORKS
            how = 'reviewed item-level fork'
            fs = set().union(*[feats_of(p) for cfgs_ in v for p in cfgs_])
            if not ok and kind == 'fn' and fs and any(f0 == file and feat in fs and (f0, sc0) not in seen_body for (f0, sc0, feat) in BODY_FORKS):
                # the reviewed fork of this file on this feature is no longer inside a function body: it was moved into a pair of twin functions
                ok = True
                how = 'the reviewed body-level fork of this file, written as twin functions: ' + next(w for (f0, sc0, feat), w in BODY_FORKS.items() if f0 == file and feat in fs)
            if not ok and fs and all(f in CONFINED and file in CONFINED[f] for f in fs):
                # private twins inside the feature's documented switch point: the module as a whole is compared across configurations (R3 / R3b / R3c)
                ok = True
                how = 'inside the documented switch point of the feature'
            rep.check(R, f'{file}|{scope}|{name}|item-fork', ok, how, f'`{name}` ({kind}) in {file} is defined {len(v)} times under different cfgs {sorted(set(v))}: an unreviewed '
                      f'feature-dependent implementation', file)
    rep.info(R, f'{n} cfg sites analysed in the five library crates')


def r2b_unbounded_behaviour(rep):
    """what `unbounded` switches: the limit, wholly, and nothing else about the counter"""
    R = rep.rule('C18/R2b', 'feature `unbounded` removes the nesting limit as a whole and nothing else: RecursionCheck::check_depth and ::enter evaluated in both builds — by default they '
                 'refuse exactly from the limit on (and accept below it), with the feature they accept every depth; in both builds an enter followed by an exit leaves the counter where it was', floor=6)
    from .den import Evaluator, FxInterp, Unanalysable
    Pp = 'toml_edit::parser::prelude::RecursionCheck::'
    is_err = lambda r: isinstance(r, tuple) and r and r[0] == 'ctor' and r[1].endswith('Result::Err')
    for cfg in ('default', 'unbounded'):
        f = Facts(cfg)
        if not all(f.has_body(Pp + x) for x in ('check_depth', 'enter', 'exit')):
            rep.incomplete(R, f'{cfg}|RecursionCheck', 'check_depth / enter / exit not found')
            continue
        ev = Evaluator(f)
        lim = None
        if cfg == 'default':
            for name in ('toml_edit::parser::prelude::LIMIT', 'toml_edit::parser::prelude::RecursionCheck::LIMIT'):
                try:
                    lim = ev.integer({'k': 'path', 'res': 'Const', 'path': name})
                    break
                except Unanalysable:
                    try:
                        lim = ev.integer({'k': 'path', 'res': 'AssocConst', 'path': name})
                        break
                    except Unanalysable:
                        pass

        def run(name, cur=0, arg=None):
            b = f.body(Pp + name)
            it = FxInterp(ev)
            pn = [p['name'] for p in b.get('params', []) if p.get('k') == 'p_bind']
            env = {'.current': cur, '@assign': {}}
            if name == 'check_depth':
                env[pn[-1]] = arg
            else:
                env[pn[0]] = ('self',)
            try:
                r = it.run_body(b, env)
            except Unanalysable:
                raise
            except Exception as ex:
                r = getattr(ex, 'v', None)
                if r is None:
                    raise
            return r, env.get('.current')
        try:
            depths = (0, 1, 79, 80, 81, 500, 10 ** 6) if lim is None else (0, 1, lim - 1, lim, lim + 1, 10 * lim)
            cd = {d: is_err(run('check_depth', arg=d)[0]) for d in depths}
            en = {c: is_err(run('enter', cur=c)[0]) for c in depths}
            bal = []
            for c in (0, 1, 5):
                r, mid = run('enter', cur=c)
                _, after = run('exit', cur=mid)
                bal.append((c, mid, after))
        except Unanalysable as e:
            rep.incomplete(R, f'{cfg}|evaluation', f'cannot evaluate the counter in configuration `{cfg}`: {e}')
            continue
        loc = f.loc(f.body(Pp + 'check_depth'))
        if cfg == 'unbounded':
            rep.check(R, 'unbounded|check_depth', not any(cd.values()), 'every depth accepted', f'with feature `unbounded`, check_depth still refuses the depths {[d for d, e in cd.items() if e]}', loc)
            rep.check(R, 'unbounded|enter', not any(en.values()), 'every depth accepted', f'with feature `unbounded`, enter still refuses at the counter values {[d for d, e in en.items() if e]}', loc)
        else:
            rep.check(R, 'default|limit', lim is not None and 2 <= lim <= 128, f'LIMIT = {lim}', f'the nesting limit of the default build is {lim}', loc)
            if lim is not None:
                rep.check(R, 'default|check_depth', all(e == (d >= lim) for d, e in cd.items()), f'refuses exactly from {lim}', f'by default, check_depth refuses {[d for d, e in cd.items() if e]} '
                          f'(expected: exactly the depths >= {lim})', loc)
                rep.check(R, 'default|enter', all(e == (c + 1 >= lim) for c, e in en.items()), f'refuses exactly when the counter reaches {lim}', f'by default, enter refuses at the counter values '
                          f'{[c for c, e in en.items() if e]} (expected: exactly when counter + 1 >= {lim})', loc)
        rep.check(R, f'{cfg}|balanced', all(isinstance(a, int) and a == c and isinstance(m, int) and m >= c for c, m, a in bal), f'{bal}',
                  f'in configuration `{cfg}` enter / exit take the counter {bal} (before, after enter, after exit): exit does not undo enter', loc)


def pub_api(facts, type_prefix):
    out = {}
    for d, f in facts.fns.items():
        if type_prefix in d and f.get('vis') == 'pub':
            out[d] = (tuple(f.get('inputs', [])), f.get('output'))
    return out


def r3_per_config(rep, tier):
    R = rep.rule('C18/R3', 'the switched types keep one public API in every configuration (InternalString with / without perf, toml::Map with / '
                 'without preserve_order), and the storage rules hold in each', floor=2)
    pairs = [('default', 'perf', 'toml_edit::internal_string::InternalString'), ('default', 'preserve_order', 'toml::map::')]
    for a, b, prefix in pairs:
        fa, fb = Facts(a), Facts(b)
        pa, pb = pub_api(fa, prefix), pub_api(fb, prefix)
        norm = lambda api: {k: (tuple(re.sub(r'(alloc::collections::btree::map|indexmap::map)[:\w<>, \']*', 'MAP', x) for x in v[0]), re.sub(r'(alloc::collections::btree::map|indexmap::map)[:\w<>, \']*', 'MAP', v[1] or '')) for k, v in api.items()}
        na, nb = norm(pa), norm(pb)
        diff = sorted(set(na) ^ set(nb)) + sorted(k for k in set(na) & set(nb) if na[k] != nb[k])
        rep.check(R, f'{prefix}|api {a} vs {b}', not diff and len(pa) >= 5, f'{len(pa)} public fns identical', f'public API of `{prefix}` differs between `{a}` and `{b}`: {diff[:5]}')
    for cfg in (['default', 'preserve_order', 'perf'] if tier == 'quick' else ['default', 'preserve_order', 'perf', 'perf_preserve_order', 'toml_parse_po', 'toml_display_po']):
        f = Facts(cfg)
        rep.cur_config = cfg
        R1 = rep.rule('C18/R3b', 'no order-breaking storage operation in any configuration; toml::Map stays a 1:1 delegate (shift_remove when insertion-ordered)', floor=4)
        if 'toml_edit' in f.crates:
            order_ops(rep, R1, f, floor_shift=6 if cfg in ('default', 'perf') else 6)
        if 'toml' in f.crates:
            from .rules_c16 import r5_map_delegate
            r5_map_delegate(rep, f)
            if 'C16/R5' in rep.rules:
                r = rep.rules.pop('C16/R5')
                tgt = rep.rules.setdefault('C18/R3c', {'text': 'toml::Map is a 1:1 delegate in every configuration', 'obligations': [], 'floor': 24, 'info': []})
                tgt['obligations'] += [dict(o, key=f'{cfg}|' + o['key']) for o in r['obligations']]
                for v in rep.violations:
                    if v['rule'] == 'C16/R5':
                        v['rule'] = 'C18/R3c'
                        v['key'] = v['key'].replace('C16/R5', 'C18/R3c')
    rep.cur_config = None


def r3d_same_resolution(rep):
    """the same source function must mean the same thing in every configuration: method calls resolve to the same callee"""
    R = rep.rule('C18/R3d', 'a function compiled in two configurations calls the same things in both: for every function body present in the default configuration and in another '
                 'one, the resolved callee of every method call is the same, except inside the documented switch points (toml::map, InternalString, the stand-in error types of '
                 'toml without toml_edit\'s parser / printer, the reviewed body forks).  A call that resolves through a cfg-gated impl in one build and through an auto-deref '
                 'fallback in another (`key.to_string()`: Display for Key with `display`, str otherwise) gives different values from the same source', floor=10)
    import collections
    base = Facts('default')

    def sig(b):
        out = collections.Counter()
        for n in walk(b['body']):
            if n.get('k') == 'mcall':
                c = (n.get('resolved') or n.get('callee') or '?').replace('toml::edit::', 'toml_edit::')
                # the receiver as the call sees it (its type after auto-deref / auto-ref): `x.to_string()` on a Key is one thing, on the str it derefs to another
                r = n.get('recv') or {}
                out[(n.get('name'), c, (r.get('adj') or ''), (r.get('t') or '').replace('toml::edit::', 'toml_edit::'))] += 1
        return out
    allowed_files = set().union(*CONFINED.values()) | {f for (f, _, _) in BODY_FORKS}
    n_cmp = 0
    for cfg in CONFIGS:
        name = cfg if isinstance(cfg, str) else cfg[0]
        if name == 'default':
            continue
        try:
            f = Facts(name)
        except AnalysisIncomplete:
            continue
        diffs = []
        n_same = 0
        for d, b in f.bodies.items():
            bb = base.bodies.get(d)
            if bb is None or b.get('derived') or '::test' in d:
                continue
            s1, s2 = sig(bb), sig(b)
            if s1 == s2:
                n_same += 1
                continue
            if f.rel(b.get('file')) in allowed_files:
                continue
            diffs.append((d, sorted(s1 - s2)[:2], sorted(s2 - s1)[:2], f.loc(b)))
        n_cmp += 1
        rep.check(R, f'{name}|same-callees', not diffs, f'{n_same} functions shared with the default configuration resolve their calls identically',
                  (f'in configuration `{name}` `{diffs[0][0]}` calls {diffs[0][2]} where the default build calls {diffs[0][1]}' +
                   (f' (+{len(diffs) - 1} more functions)' if len(diffs) > 1 else '')) if diffs else '', diffs[0][3] if diffs else '')
    rep.check(R, 'configurations', n_cmp >= 10, f'{n_cmp} configurations compared with the default one', f'only {n_cmp} configurations could be compared')


def r5b_single_entry_enum(rep):
    """an externally tagged enum is read from a table of exactly one entry: with more entries `the first one` is whichever the map's order puts first"""
    R = rep.rule('C18/R5b', 'a table is accepted as an enum only when it has exactly one entry (evaluated: 0, 2 and 3 entries are refused before the variant access is built, '
                 '1 entry reaches visit_enum), in toml::Value and in toml_edit\'s table deserializer alike: otherwise the variant chosen for a table with several entries '
                 'would be the first in iteration order, which preserve_order changes', floor=8)
    from .den import RecInterp, Evaluator, Unanalysable, EvalPanic
    f = Facts('default')
    cases = [("<toml::value::Value as serde::de::Deserializer<'de>>::deserialize_enum", lambda kids: ('ctor', 'toml::value::Value::Table', (kids,))),
             ("<toml_edit::de::table::TableDeserializer as serde::de::Deserializer<'de>>::deserialize_enum",
              lambda kids: ('struct', 'toml_edit::de::table::TableDeserializer', {'items': kids, 'span': ('opaque',)}))]
    for d, mk in cases:
        if not f.has_body(d):
            rep.incomplete(R, d, 'not found')
            continue
        b = f.body(d)
        pn = [p_['name'] for p_ in b['params'] if p_.get('k') == 'p_bind']
        for n in (0, 1, 2, 3):
            kids = tuple((('key', i), ('elem', i)) for i in range(n))
            it = RecInterp(Evaluator(f), {'visit_enum'}, {'custom', 'invalid_type', 'invalid_length'})
            env = {pn[0]: mk(kids), '@assign': {}}
            for e in pn[1:]:
                env[e] = ('opaque',)
            try:
                it.run_body(b, env)
            except (Unanalysable, EvalPanic) as ex:
                rep.incomplete(R, f'{d}|{n}', f'cannot evaluate: {ex}', f.loc(b))
                continue
            reached = any(nm == 'visit_enum' for nm, _ in it.calls)
            rep.check(R, f'{d}|{n}', reached == (n == 1), 'visit_enum' if reached else 'refused', f'`{d}` {"accepts" if reached else "refuses"} a table of {n} entries as an enum'
                      + (': the variant is then the first entry in map order (sorted by default, insertion order under preserve_order), the other entries are ignored' if reached else ''), f.loc(b))


def r5_order_sensitive(rep, rid='C18/R5'):
    """results must not depend on the iteration order of toml::Map, which is the one thing preserve_order changes"""
    R = rep.rule(rid, 'no position-sensitive consumption of a toml::Map iteration in library code: `enumerate` / `zip` / `nth` / `position` / `last` / '
                 '`first` over the entries of a toml::Map, or `collect` of them into a sequence (Vec) (sorted by default, insertion-ordered under preserve_order) would make a verdict or a value '
                 'depend on the feature; order-insensitive uses (for-each, collect into a map, find by key, any / all) are fine', floor=1)
    f = Facts('default')
    MAPT = ('toml::map::Map<', 'toml::map::IntoIter', 'toml::map::Iter<', 'toml::map::IterMut<', 'toml::map::Keys<', 'toml::map::Values<')
    SENS = {'enumerate', 'zip', 'nth', 'position', 'rposition', 'last', 'rev', 'skip', 'take', 'step_by', 'first', 'next_back', 'reduce', 'fold', 'scan', 'windows', 'chunks', 'is_sorted'}
    n_iter = 0
    bad = []
    for d, b in sorted(f.bodies.items()):
        if not (d.startswith('toml::') or d.startswith('<toml::')) or '::test' in d or b.get('derived'):
            continue
        if d.startswith('toml::map::') or d.startswith('<toml::map::'):
            continue        # the map's own delegating impls
        for n in walk(b['body']):
            if n.get('k') != 'mcall':
                continue
            if n.get('name') == 'collect':
                # collecting the entries into a sequence freezes the iteration order into positions; into a map / set it does not
                t = n.get('t') or ''
                if not any(s in t for s in ('Vec<', 'VecDeque<', 'Box<[', 'SmallVec<')) or any(s in t for s in ('Map<', 'Set<')):
                    continue
            elif n.get('name') not in SENS:
                continue
            # is the receiver chain rooted in an iteration of a toml::Map?
            x = n['recv']
            rooted = False
            for _ in range(12):
                x = peel(x)
                t = x.get('t') or ''
                if any(m in t for m in MAPT):
                    rooted = True
                    break
                if x.get('k') == 'mcall':
                    x = x['recv']
                else:
                    break
            if rooted:
                bad.append((d, n['name'], n.get('l'), f.loc(b, n)))
        n_iter += sum(1 for n in walk(b['body']) if n.get('k') == 'mcall' and n.get('name') in ('iter', 'into_iter', 'iter_mut', 'keys', 'values') and any(m in (peel(n['recv']).get('t') or '') for m in MAPT))
        n_iter += sum(1 for n in walk(b['body']) if n.get('k') == 'call' and (peel(n.get('f', {})).get('path') or '').endswith('IntoIterator::into_iter') and n.get('args')
                      and any(m in (peel(n['args'][0]).get('t') or '') for m in MAPT))
    rep.check(R, 'toml|map-iterations', n_iter >= 1, f'{n_iter} iterations over toml::Map found in the toml crate', f'only {n_iter} iterations over toml::Map found: the query is broken')
    for d, name, l, loc in bad:
        rep.bad(R, f'{d}|{name}', f'`{d}` applies `{name}` to an iteration over a toml::Map: the result depends on whether the map is sorted (default) or insertion-ordered '
                f'(preserve_order), so the same input gives different verdicts / values in the two configurations', loc)
    if not bad:
        rep.ok(R, 'toml|no-position-sensitive-use', 'none found')


def r4_unbounded(rep):
    R = rep.rule('C18/R4', 'under `unbounded` the recursion limit is really compiled out: RecursionCheck has no counter field and enter / exit / '
                 'check_depth cannot fail; without it they are present (C05)', floor=4)
    f = Facts('unbounded')
    adt = f.adts.get('toml_edit::parser::prelude::RecursionCheck')
    fields = [x['name'] for x in adt['variants'][0]['fields']] if adt else None
    rep.check(R, 'unbounded|no-counter', fields == [], f'fields {fields}', f'RecursionCheck has fields {fields} under `unbounded`')
    for fn in ('enter', 'check_depth', 'exit'):
        d = f'toml_edit::parser::prelude::RecursionCheck::{fn}'
        b = f.body(d)
        errs = any(n.get('k') == 'path' and ((n.get('path') or '').endswith('Result::Err') or last_seg(n.get('path') or '') == 'RecursionLimitExceeded') for n in walk(b['body']))
        cmps = any(n.get('k') == 'binary' and n.get('op') in ('<', '<=', '>', '>=') for n in walk(b['body']))
        rep.check(R, f'unbounded|{fn}', not errs and not cmps, 'no comparison, no error', f'`{fn}` still enforces a limit under `unbounded` (documents beyond the default limit are rejected although the feature promises no limit)', f.loc(b))
    lim = any(d.endswith('prelude::LIMIT') for d in f.consts)
    rep.check(R, 'unbounded|no-LIMIT', not lim, 'LIMIT not compiled', 'const LIMIT is compiled under `unbounded`')


def run(tier):
    seed = int(os.environ.get('VERIF_SEED', '0') or 0)
    rep = Report(PROP, tier, seed)
    R = rep.rule('C18/R1', 'every supported feature configuration type-checks (cargo +nightly check with the real flags; the type checker is the decision)', floor=21)
    configs = list(CONFIGS)
    for cfg in configs:
        try:
            d = facts_dir(cfg)
            meta = open(os.path.join(d, 'OK')).read()
            rep.ok(R, cfg, 'cargo check ' + ' '.join(CONFIGS[cfg][0]))
            rep.configs.append(cfg)
        except AnalysisIncomplete as e:
            rep.bad(R, cfg, f'configuration `{cfg}` (cargo check {" ".join(CONFIGS[cfg][0])}) does not build: {str(e)[-600:]}')
        except Exception:
            rep.incomplete(R, cfg, traceback.format_exc()[-800:])
    try:
        from .core import repo_root
        r2_census(rep, repo_root())
        r3_per_config(rep, tier)
        r4_unbounded(rep)
        r5_order_sensitive(rep)
        r5b_single_entry_enum(rep)
        r3d_same_resolution(rep)
        r2b_unbounded_behaviour(rep)
        from .shared import presized_from_hint
        R6 = rep.rule('C18/R6', 'the map type behind toml::Map differs in when it allocates (BTreeMap lazily, IndexMap eagerly): no container of the workspace is pre-sized from an access '
                      'object\'s size_hint(), an untrusted number that only the eager configuration would act on', floor=1)
        presized_from_hint(rep, R6, Facts('default'))
    except AnalysisIncomplete as e:
        rep.incomplete('C18/analysis', 'rules', str(e))
    except Exception:
        rep.incomplete('C18/analysis', 'rules:crash', traceback.format_exc()[-1500:])
    rep.bodies_analysed = sum(Facts(c).n_bodies() for c in ('default', 'perf', 'preserve_order', 'unbounded') if c in rep.configs)
    return rep.finish()
